package verifm

// C12 value independence: two arbitrary initial states that drive the program
// down the SAME path (same executed instructions, same concrete addresses)
// must get the same cycle count from the machine.

import vp "github.com/teivah/majorana/verifvp"

func symState(suffix string, memSize int) *refState {
	s := &refState{mem: make([]int8, memSize)}
	concrete := parseInit(vp.S("init"))
	for r := 1; r < 32; r++ {
		if v, ok := concrete[r]; ok {
			s.reg[r] = v
		} else {
			s.reg[r] = vp.I32(regNames[r] + suffix)
		}
	}
	symFrom, symTo := 0, memSize
	if vp.S("symmem") != "" {
		symFrom, symTo = parseRange(vp.S("symmem"))
	}
	for i := symFrom; i < symTo; i++ {
		s.mem[i] = vp.I8("m" + vp.Itoa(i) + suffix)
	}
	return s
}

func copyState(s *refState) *refState {
	c := &refState{mem: append([]int8(nil), s.mem...)}
	c.reg = s.reg
	return c
}

func VerifC12VI() {
	variant := vp.S("variant")
	memSize := vp.N("mem")
	progText := vp.S("prog")
	prog := parseProg(progText)
	a0, b0 := symState("_a", memSize), symState("_b", memSize)
	ra, rb := copyState(a0), copyState(b0)
	ra.run(prog, vp.N("maxsteps"))
	rb.run(prog, vp.N("maxsteps"))
	if ra.fault != "" || rb.fault != "" || len(ra.trace) != len(rb.trace) {
		return
	}
	for i := range ra.trace {
		if ra.trace[i] != rb.trace[i] {
			return
		}
	}
	vp.Cover("same-path")
	budget := vp.N("budgetk") * (ra.executed + 2) * memoryAccess
	parse := func() interface{} { return nil }
	_ = parse
	appA, err := parseApp(progText)
	if err != nil {
		return
	}
	appB, _ := parseApp(progText)
	a := runOnce(variant, memSize, appA, a0, budget)
	b := runOnce(variant, memSize, appB, b0, budget)
	if a.aborted || b.aborted || a.err != nil || b.err != nil {
		return // termination and errors are C07's and C01's business
	}
	vp.Assert(a.cycles == b.cycles, "value-independence")
	vp.Cover("end")
}
