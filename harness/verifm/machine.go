package verifm

import (
	"github.com/teivah/majorana/proc/mvp1"
	"github.com/teivah/majorana/proc/mvp2"
	"github.com/teivah/majorana/proc/mvp3"
	"github.com/teivah/majorana/proc/mvp4"
	"github.com/teivah/majorana/proc/mvp5"
	mvp6_0 "github.com/teivah/majorana/proc/mvp6-0"
	mvp6_1 "github.com/teivah/majorana/proc/mvp6-1"
	mvp6_2 "github.com/teivah/majorana/proc/mvp6-2"
	mvp6_3 "github.com/teivah/majorana/proc/mvp6-3"
	mvp7_0 "github.com/teivah/majorana/proc/mvp7-0"
	mvp7_1 "github.com/teivah/majorana/proc/mvp7-1"
	mvp8_0 "github.com/teivah/majorana/proc/mvp8-0"
	"github.com/teivah/majorana/risc"
	"github.com/teivah/majorana/verifvp"
)

type vm interface {
	Run(risc.Application) (int, error)
	Context() *risc.Context
}

func mk(k string, mem, p int) vm {
	switch k {
	case "1":
		return mvp1.NewCPU(false, mem)
	case "2":
		return mvp2.NewCPU(false, mem)
	case "3":
		return mvp3.NewCPU(false, mem)
	case "4":
		return mvp4.NewCPU(false, mem)
	case "5":
		return mvp5.NewCPU(false, mem)
	case "6.0":
		return mvp6_0.NewCPU(false, mem, p, p)
	case "6.1":
		return mvp6_1.NewCPU(false, mem, p, p)
	case "6.2":
		return mvp6_2.NewCPU(false, mem, p, p)
	case "6.3":
		return mvp6_3.NewCPU(false, mem, p, p)
	case "7.0":
		return mvp7_0.NewCPU(false, mem, p)
	case "7.1":
		return mvp7_1.NewCPU(false, mem, p)
	case "8":
		return mvp8_0.NewCPU(false, mem, p)
	}
	panic(k)
}

// A tiny program: data-dependent branch, ALU chain, load and store to
// different lines. Reference computed by hand below.
const prog = `
  lw t3, 8(zero)
  add t2, t0, t1
  sub t4, t2, t0
  blt t0, t1, less
  li t5, 1
  j end
less:
  li t5, 2
end:
  sw t2, 128(zero)
  addi t6, t3, 1
  ret
`

var Variant = "8"
var Par = 2

func Machine() {
	m := mk(Variant, 256, Par)
	a := verifvp.I32("t0")
	b := verifvp.I32("t1")
	m.Context().Registers[risc.T0] = a
	m.Context().Registers[risc.T1] = b
	var mem [4]int8
	for i := 0; i < 4; i++ {
		mem[i] = verifvp.I8("m" + string(rune('0'+i)))
		m.Context().Memory[8+i] = mem[i]
	}
	app, err := risc.Parse(prog)
	verifvp.Assert(err == nil, "parse")
	cycles, err := m.Run(app)
	verifvp.Assert(err == nil, "run:err")
	verifvp.Assert(cycles > 0, "cycles>0")
	r := m.Context().Registers
	w := int32(uint32(uint8(mem[0])) | uint32(uint8(mem[1]))<<8 | uint32(uint8(mem[2]))<<16 | uint32(uint8(mem[3]))<<24)
	verifvp.Assert(r[risc.T3] == w, "t3")
	verifvp.Assert(r[risc.T2] == a+b, "t2")
	verifvp.Assert(r[risc.T4] == b, "t4")
	want5 := int32(1)
	if a < b {
		want5 = 2
	}
	verifvp.Assert(r[risc.T5] == want5, "t5")
	verifvp.Assert(r[risc.T6] == w+1, "t6")
	verifvp.Assert(r[risc.T0] == a && r[risc.T1] == b, "t0t1")
	s := a + b
	mm := m.Context().Memory
	verifvp.Assert(uint8(mm[128]) == uint8(s) && uint8(mm[129]) == uint8(uint32(s)>>8) && uint8(mm[130]) == uint8(uint32(s)>>16) && uint8(mm[131]) == uint8(uint32(s)>>24), "mem128")
	verifvp.Cover("end")
}
