// Package verifm is the machine-level harness of /verif (overlay-only): it
// runs one concrete program skeleton on one concrete configuration of one of
// the twelve variants with SYMBOLIC initial registers and memory, and compares
// the outcome with an independent sequential reference interpreter.
package verifm

import (
	"github.com/teivah/majorana/proc/mvp1"
	"github.com/teivah/majorana/proc/mvp2"
	"github.com/teivah/majorana/proc/mvp3"
	"github.com/teivah/majorana/proc/mvp4"
	"github.com/teivah/majorana/proc/mvp5"
	mvp6_0 "github.com/teivah/majorana/proc/mvp6-0"
	mvp6_1 "github.com/teivah/majorana/proc/mvp6-1"
	mvp6_2 "github.com/teivah/majorana/proc/mvp6-2"
	mvp6_3 "github.com/teivah/majorana/proc/mvp6-3"
	mvp7_0 "github.com/teivah/majorana/proc/mvp7-0"
	mvp7_1 "github.com/teivah/majorana/proc/mvp7-1"
	mvp8_0 "github.com/teivah/majorana/proc/mvp8-0"
	"github.com/teivah/majorana/risc"
	vp "github.com/teivah/majorana/verifvp"
)

type vm interface {
	Run(risc.Application) (int, error)
	Context() *risc.Context
}

// mk builds a machine through its public constructor and arms the loop budget
// of the instrumented Run (see drive/tick.go).
func mk(k string, mem, eu, wu, budget int) (vm, func() int) {
	switch k {
	case "1":
		mvp1.VerifSetBudget(budget)
		return mvp1.NewCPU(false, mem), mvp1.VerifTicks
	case "2":
		mvp2.VerifSetBudget(budget)
		return mvp2.NewCPU(false, mem), mvp2.VerifTicks
	case "3":
		mvp3.VerifSetBudget(budget)
		return mvp3.NewCPU(false, mem), mvp3.VerifTicks
	case "4":
		mvp4.VerifSetBudget(budget)
		return mvp4.NewCPU(false, mem), mvp4.VerifTicks
	case "5":
		mvp5.VerifSetBudget(budget)
		return mvp5.NewCPU(false, mem), mvp5.VerifTicks
	case "6.0":
		mvp6_0.VerifSetBudget(budget)
		return mvp6_0.NewCPU(false, mem, eu, wu), mvp6_0.VerifTicks
	case "6.1":
		mvp6_1.VerifSetBudget(budget)
		return mvp6_1.NewCPU(false, mem, eu, wu), mvp6_1.VerifTicks
	case "6.2":
		mvp6_2.VerifSetBudget(budget)
		return mvp6_2.NewCPU(false, mem, eu, wu), mvp6_2.VerifTicks
	case "6.3":
		mvp6_3.VerifSetBudget(budget)
		return mvp6_3.NewCPU(false, mem, eu, wu), mvp6_3.VerifTicks
	case "7.0":
		mvp7_0.VerifEnableC06(vp.N("c06") == 1)
		mvp7_0.VerifSetBudget(budget)
		return mvp7_0.NewCPU(false, mem, eu), mvp7_0.VerifTicks
	case "7.1":
		mvp7_1.VerifEnableC06(vp.N("c06") == 1)
		mvp7_1.VerifSetBudget(budget)
		return mvp7_1.NewCPU(false, mem, eu), mvp7_1.VerifTicks
	case "8":
		mvp8_0.VerifEnableC06(vp.N("c06") == 1)
		mvp8_0.VerifSetBudget(budget)
		return mvp8_0.NewCPU(false, mem, eu), mvp8_0.VerifTicks
	}
	panic("verifm: unknown variant " + k)
}

var regNames = []string{"zero", "ra", "sp", "gp", "tp", "t0", "t1", "t2", "s0", "s1", "a0", "a1", "a2", "a3", "a4", "a5", "a6", "a7",
	"s2", "s3", "s4", "s5", "s6", "s7", "s8", "s9", "s10", "s11", "t3", "t4", "t5", "t6"}

const memoryAccess = 309 // the slowest latency of common/latency (checked by the C12 harness against the package)

// VerifMachine: job parameters variant, eu, wu (cores for 7.x/8), mem (bytes), prog
// (assembly text), init ("t0=64,t1=-4": registers with concrete initial values;
// all others are symbolic), budgetk (cycle budget = budgetk*(executed+2)*309),
// check ("all" | "noregs:<r>,<r>" registers not compared).
func VerifMachine() {
	variant := vp.S("variant")
	memSize := vp.N("mem")
	progText := vp.S("prog")
	prog := parseProg(progText)

	// symbolic (or concretely initialised) architectural state
	ref := &refState{mem: make([]int8, memSize)}
	concrete := parseInit(vp.S("init"))
	for r := 1; r < 32; r++ {
		if v, ok := concrete[r]; ok {
			ref.reg[r] = v
		} else {
			ref.reg[r] = vp.I32(regNames[r])
		}
	}
	symFrom, symTo := 0, memSize
	if vp.S("symmem") != "" {
		symFrom, symTo = parseRange(vp.S("symmem"))
	}
	for i := symFrom; i < symTo; i++ {
		ref.mem[i] = vp.I8("m" + vp.Itoa(i))
	}
	var init refState
	init.reg = ref.reg
	init.mem = append([]int8(nil), ref.mem...)

	// 1. the sequential reference (forks here on the program's own data-dependent branches)
	ref.run(prog, vp.N("maxsteps"))
	vp.Cover("ref-done")

	// 2. the machine
	budget := vp.N("budgetk") * (ref.executed + 2) * memoryAccess
	m, ticks := mk(variant, memSize, vp.N("eu"), vp.N("wu"), budget)
	ctx := m.Context()
	for r := 1; r < 32; r++ {
		ctx.Registers[risc.RegisterType(r)] = init.reg[r]
	}
	copy(ctx.Memory, init.mem)
	app, err := risc.Parse(progText)
	vp.Assert(err == nil, "parse")
	if err != nil {
		return
	}
	cycles, err := m.Run(app)
	vp.Cover("run-returned")
	if ref.fault != "" {
		// the reference hit an ISA-defined error (division by zero): the machine must report an error value
		vp.Assert(err != nil, "error-reported")
		vp.Cover("end")
		return
	}
	vp.Assert(err == nil, "run-error")
	if err != nil {
		return
	}
	vp.Assert(cycles > 0, "cycles-positive")
	vp.Assert(cycles <= budget && ticks() <= budget, "cycle-bound")
	width := vp.N("width")
	vp.Assert(cycles*width >= ref.executed, "cycles-vs-width")
	checkCycles(variant, cycles, ref, prog)

	// 3. architectural state
	skip := parseSkip(vp.S("skipregs"))
	for r := 1; r < 32; r++ {
		if skip[r] {
			continue
		}
		vp.Assert(ctx.Registers[risc.RegisterType(r)] == ref.reg[r], "reg:"+regNames[r])
	}
	z, hasZ := ctx.Registers[risc.Zero]
	vp.Assert(!hasZ || z == 0, "reg:zero")
	vp.Assert(len(ctx.Memory) == memSize, "mem-size")
	for w := 0; w*4+3 < memSize && w*4+3 < len(ctx.Memory); w++ {
		vp.Assert(word(ctx.Memory, 4*w) == word(ref.mem, 4*w), "mem:"+vp.Itoa(4*w))
	}
	vp.Cover("end")
}

func word(m []int8, i int) uint32 {
	return uint32(uint8(m[i])) | uint32(uint8(m[i+1]))<<8 | uint32(uint8(m[i+2]))<<16 | uint32(uint8(m[i+3]))<<24
}

func assertEq(a, b int, label string) { vp.Assert(a == b, label) }
func assertLe(a, b int, label string) { vp.Assert(a <= b, label) }
