package verifm

import (
	"github.com/teivah/majorana/risc"
	"github.com/teivah/majorana/verifvp"
)

const prog2 = `
  sw t0, 8(zero)
  lw t3, 8(zero)
  ret
`

var Pol = 1

// store then load of the same word; data symbolic
func Machine2() {
	verifvp.Policy(Pol)
	m := mk(Variant, 256, Par)
	a := verifvp.I32("t0")
	m.Context().Registers[risc.T0] = a
	app, err := risc.Parse(prog2)
	verifvp.Assert(err == nil, "parse")
	cycles, err := m.Run(app)
	verifvp.Assert(err == nil, "run:err")
	verifvp.Assert(cycles > 0, "cycles>0")
	verifvp.Cover("end")
	r := m.Context().Registers
	verifvp.Assert(r[risc.T3] == a, "t3")
	mm := m.Context().Memory
	verifvp.Assert(uint8(mm[8]) == uint8(a) && uint8(mm[11]) == uint8(uint32(a)>>24), "mem8")
}
