package verifm

import vp "github.com/teivah/majorana/verifvp"

// The sequential reference: its own parser for the well-formed skeleton text
// the driver generates, and a 32-register / flat-memory interpreter written
// from the RV32IM definition. It never calls package risc.

type rins struct {
	op         string
	a, b, c    int   // register numbers
	imm        int32 // immediate / offset
	label      string
}

type rprog struct {
	ins    []rins
	labels map[string]int32
}

type refState struct {
	reg      [32]int32
	mem      []int8
	executed int
	trace    []int // executed instruction indices
	fault    string
	ended    string // "ret" | "end" | "steps"
}

func regNum(s string) int {
	for i, n := range regNames {
		if n == s {
			return i
		}
	}
	panic("verifm: register " + s)
}

func trim(s string) string {
	for len(s) > 0 && (s[0] == ' ' || s[0] == '\t') {
		s = s[1:]
	}
	for len(s) > 0 && (s[len(s)-1] == ' ' || s[len(s)-1] == '\t' || s[len(s)-1] == '\r') {
		s = s[:len(s)-1]
	}
	return s
}

func atoi(s string) int32 {
	s = trim(s)
	neg := false
	if len(s) > 0 && (s[0] == '-' || s[0] == '+') {
		neg = s[0] == '-'
		s = s[1:]
	}
	var n int64
	for i := 0; i < len(s); i++ {
		if s[i] < '0' || s[i] > '9' {
			panic("verifm: number " + s)
		}
		n = n*10 + int64(s[i]-'0')
	}
	if neg {
		n = -n
	}
	return int32(n)
}

func splitBy(s string, sep byte) []string {
	var out []string
	start := 0
	for i := 0; i <= len(s); i++ {
		if i == len(s) || s[i] == sep {
			out = append(out, s[start:i])
			start = i + 1
		}
	}
	return out
}

func parseProg(text string) *rprog {
	p := &rprog{labels: map[string]int32{}}
	for _, line := range splitBy(text, '\n') {
		for i := 0; i < len(line); i++ {
			if line[i] == '#' {
				line = line[:i]
				break
			}
		}
		line = trim(line)
		if line == "" {
			continue
		}
		if line[len(line)-1] == ':' {
			p.labels[line[:len(line)-1]] = int32(4 * len(p.ins))
			continue
		}
		sp := len(line)
		for i := 0; i < len(line); i++ {
			if line[i] == ' ' {
				sp = i
				break
			}
		}
		in := rins{op: line[:sp]}
		var args []string
		if sp < len(line) {
			for _, a := range splitBy(line[sp+1:], ',') {
				args = append(args, trim(a))
			}
		}
		offreg := func(s string) (int32, int) {
			for i := 0; i < len(s); i++ {
				if s[i] == '(' {
					return atoi(s[:i]), regNum(trim(s[i+1 : len(s)-1]))
				}
			}
			panic("verifm: offset(reg) " + s)
		}
		switch in.op {
		case "add", "sub", "and", "or", "xor", "mul", "div", "rem", "sll", "srl", "sra", "slt", "sltu":
			in.a, in.b, in.c = regNum(args[0]), regNum(args[1]), regNum(args[2])
		case "addi", "andi", "ori", "xori", "slti", "slli", "srli", "srai", "jalr":
			in.a, in.b, in.imm = regNum(args[0]), regNum(args[1]), atoi(args[2])
		case "li", "lui", "auipc":
			in.a, in.imm = regNum(args[0]), atoi(args[1])
		case "mv":
			in.a, in.b = regNum(args[0]), regNum(args[1])
		case "beq", "bne", "blt", "bge", "ble", "bltu", "bgeu":
			in.a, in.b, in.label = regNum(args[0]), regNum(args[1]), args[2]
		case "beqz", "bnez":
			in.a, in.label = regNum(args[0]), args[1]
		case "j":
			in.label = args[0]
		case "jal":
			in.a, in.label = regNum(args[0]), args[1]
		case "lb", "lh", "lw", "sb", "sh", "sw":
			in.a = regNum(args[0])
			if len(args) == 3 {
				// this assembler's half-word store is written "sh data, offset, base"
				in.imm, in.b = atoi(args[1]), regNum(args[2])
			} else {
				in.imm, in.b = offreg(args[1])
			}
		case "nop", "ret":
		default:
			panic("verifm: mnemonic " + in.op)
		}
		p.ins = append(p.ins, in)
	}
	return p
}

func parseInit(s string) map[int]int32 {
	m := map[int]int32{}
	if s == "" {
		return m
	}
	for _, kv := range splitBy(s, ',') {
		for i := 0; i < len(kv); i++ {
			if kv[i] == '=' {
				m[regNum(trim(kv[:i]))] = atoi(kv[i+1:])
			}
		}
	}
	return m
}

func parseSkip(s string) map[int]bool {
	m := map[int]bool{}
	if s == "" {
		return m
	}
	for _, r := range splitBy(s, ',') {
		m[regNum(trim(r))] = true
	}
	return m
}

func parseRange(s string) (int, int) {
	p := splitBy(s, '-')
	return int(atoi(p[0])), int(atoi(p[1]))
}

func (s *refState) set(r int, v int32) {
	if r != 0 {
		s.reg[r] = v
	}
}

func (s *refState) ld(addr int32, k int) uint32 {
	var w uint32
	for i := 0; i < k; i++ {
		w |= uint32(uint8(s.mem[int(addr)+i])) << (8 * uint(i))
	}
	return w
}

func (s *refState) st(addr int32, k int, v uint32) {
	for i := 0; i < k; i++ {
		s.mem[int(addr)+i] = int8(uint8(v >> (8 * uint(i))))
	}
}

// run executes the program one instruction at a time in program order.
func (s *refState) run(p *rprog, maxSteps int) {
	pc := int32(0)
	n := int32(len(p.ins))
	for pc >= 0 && pc/4 < n {
		if s.executed >= maxSteps {
			s.ended = "steps"
			panic("verifm: skeleton does not terminate within maxsteps (driver error)")
		}
		idx := int(pc / 4)
		in := p.ins[idx]
		s.executed++
		s.trace = append(s.trace, idx)
		a, b := s.reg[in.b], s.reg[in.c]
		next := pc + 4
		target := func() int32 {
			t, ok := p.labels[in.label]
			if !ok {
				s.fault = "label"
			}
			return t
		}
		switch in.op {
		case "add":
			s.set(in.a, a+b)
		case "sub":
			s.set(in.a, a-b)
		case "and":
			s.set(in.a, a&b)
		case "or":
			s.set(in.a, a|b)
		case "xor":
			s.set(in.a, a^b)
		case "mul":
			s.set(in.a, a*b)
		case "div", "rem":
			if vp.Fork(b == 0) {
				s.fault = "div0"
				return
			}
			if in.op == "div" {
				s.set(in.a, a/b)
			} else {
				s.set(in.a, a%b)
			}
		case "sll":
			s.set(in.a, int32(uint32(a)<<(uint32(b)&31)))
		case "srl":
			s.set(in.a, int32(uint32(a)>>(uint32(b)&31)))
		case "sra":
			s.set(in.a, a>>(uint32(b)&31))
		case "slt":
			if a < b {
				s.set(in.a, 1)
			} else {
				s.set(in.a, 0)
			}
		case "sltu":
			if uint32(a) < uint32(b) {
				s.set(in.a, 1)
			} else {
				s.set(in.a, 0)
			}
		case "addi":
			s.set(in.a, a+in.imm)
		case "andi":
			s.set(in.a, a&in.imm)
		case "ori":
			s.set(in.a, a|in.imm)
		case "xori":
			s.set(in.a, a^in.imm)
		case "slti":
			if a < in.imm {
				s.set(in.a, 1)
			} else {
				s.set(in.a, 0)
			}
		case "slli":
			s.set(in.a, int32(uint32(a)<<(uint32(in.imm)&31)))
		case "srli":
			s.set(in.a, int32(uint32(a)>>(uint32(in.imm)&31)))
		case "srai":
			s.set(in.a, a>>(uint32(in.imm)&31))
		case "li":
			s.set(in.a, in.imm)
		case "lui":
			s.set(in.a, int32(uint32(in.imm)<<12))
		case "auipc":
			s.set(in.a, pc+int32(uint32(in.imm)<<12))
		case "mv":
			s.set(in.a, a)
		case "beq":
			if vp.Fork(s.reg[in.a] == s.reg[in.b]) {
				next = target()
			}
		case "bne":
			if vp.Fork(s.reg[in.a] != s.reg[in.b]) {
				next = target()
			}
		case "blt":
			if vp.Fork(s.reg[in.a] < s.reg[in.b]) {
				next = target()
			}
		case "bge":
			if vp.Fork(s.reg[in.a] >= s.reg[in.b]) {
				next = target()
			}
		case "ble":
			if vp.Fork(s.reg[in.a] <= s.reg[in.b]) {
				next = target()
			}
		case "bltu":
			if vp.Fork(uint32(s.reg[in.a]) < uint32(s.reg[in.b])) {
				next = target()
			}
		case "bgeu":
			if vp.Fork(uint32(s.reg[in.a]) >= uint32(s.reg[in.b])) {
				next = target()
			}
		case "beqz":
			if vp.Fork(s.reg[in.a] == 0) {
				next = target()
			}
		case "bnez":
			if vp.Fork(s.reg[in.a] != 0) {
				next = target()
			}
		case "j":
			next = target()
		case "jal":
			next = target()
			s.set(in.a, pc+4)
		case "jalr":
			next = a + in.imm
			s.set(in.a, pc+4)
		case "lb":
			s.set(in.a, int32(int8(uint8(s.ld(a+in.imm, 1)))))
		case "lh":
			s.set(in.a, int32(int16(uint16(s.ld(a+in.imm, 2)))))
		case "lw":
			s.set(in.a, int32(s.ld(a+in.imm, 4)))
		case "sb":
			s.st(a+in.imm, 1, uint32(s.reg[in.a]))
		case "sh":
			s.st(a+in.imm, 2, uint32(s.reg[in.a]))
		case "sw":
			s.st(a+in.imm, 4, uint32(s.reg[in.a]))
		case "nop":
		case "ret":
			s.ended = "ret"
			return
		}
		if s.fault != "" {
			return
		}
		pc = next
	}
	s.ended = "end"
}

func isLoad(op string) bool  { return op == "lb" || op == "lh" || op == "lw" }
func isStore(op string) bool { return op == "sb" || op == "sh" || op == "sw" }
func writesReg(op string) bool {
	switch op {
	case "beq", "bne", "blt", "bge", "ble", "bltu", "bgeu", "beqz", "bnez", "j", "nop", "ret", "sb", "sh", "sw":
		return false
	}
	return true
}

// mvp1Cycles is the documented unpipelined latency model: per executed
// instruction fetch (memory) + decode (1) + memory read for loads + execute
// (50 for loads, 1 otherwise) + write-back (register 1, memory 309, none for
// branches; the ret that ends the run is not written back).
func mvp1Cycles(p *rprog, trace []int) int {
	const mem, reg, decode = 309, 1, 1
	c := 0
	for _, idx := range trace {
		op := p.ins[idx].op
		c += mem + decode
		if isLoad(op) {
			c += mem + 50
		} else {
			c += 1
		}
		switch {
		case op == "ret":
		case writesReg(op):
			c += reg
		case isStore(op):
			c += mem
		}
	}
	return c
}

func checkCycles(variant string, cycles int, ref *refState, p *rprog) {
	// exact accounting on the unpipelined machine; the L1I machine is never slower
	switch variant {
	case "1":
		assertEq(cycles, mvp1Cycles(p, ref.trace), "mvp1-cycle-sum")
	case "2":
		assertLe(cycles, mvp1Cycles(p, ref.trace), "mvp2-not-slower-than-mvp1")
	}
}
