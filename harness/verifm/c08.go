package verifm

// C08 harness: two runs on the same symbolic input that must agree bit for
// bit (cycles, registers, memory): under two map-iteration-order policies
// (mode order), back to back in one process with the package-level variables
// havocked (mode repeat), or with one parsed program reused on a second
// machine (mode reuse).

import (
	"github.com/teivah/majorana/proc/comp"
	mvp8_0 "github.com/teivah/majorana/proc/mvp8-0"
	"github.com/teivah/majorana/risc"
	vp "github.com/teivah/majorana/verifvp"
)

type runOut struct {
	cycles  int
	err     error
	ctx     *risc.Context
	aborted bool // Run panicked (Go panic, or the cycle-budget abort of the instrumented loop)
}

func runOnce(variant string, memSize int, app risc.Application, init *refState, budget int) (out runOut) {
	defer func() {
		if r := recover(); r != nil {
			if _, assume := r.(vp.AssumeViolated); assume {
				panic(r)
			}
			out.aborted = true
		}
	}()
	m, _ := mk(variant, memSize, vp.N("eu"), vp.N("wu"), budget)
	ctx := m.Context()
	for r := 1; r < 32; r++ {
		ctx.Registers[risc.RegisterType(r)] = init.reg[r]
	}
	copy(ctx.Memory, init.mem)
	cycles, err := m.Run(app)
	return runOut{cycles: cycles, err: err, ctx: ctx}
}

func sameOutcome(a, b runOut, memSize int) {
	// whether the run ends at all (no panic, within the cycle budget) must not depend on order or history
	vp.Assert(a.aborted == b.aborted, "same:terminates")
	if a.aborted || b.aborted {
		return
	}
	vp.Assert((a.err == nil) == (b.err == nil), "same:error")
	if a.err != nil || b.err != nil {
		return
	}
	vp.Assert(a.cycles == b.cycles, "same:cycles")
	for r := 1; r < 32; r++ {
		vp.Assert(a.ctx.Registers[risc.RegisterType(r)] == b.ctx.Registers[risc.RegisterType(r)], "same:reg:"+regNames[r])
	}
	for w := 0; w*4+3 < memSize; w++ {
		vp.Assert(word(a.ctx.Memory, 4*w) == word(b.ctx.Memory, 4*w), "same:mem:"+vp.Itoa(4*w))
	}
}

// VerifC08: parameters as VerifMachine plus mode, policy1, policy2, variant2.
func VerifC08() {
	variant := vp.S("variant")
	memSize := vp.N("mem")
	progText := vp.S("prog")
	init := &refState{mem: make([]int8, memSize)}
	concrete := parseInit(vp.S("init"))
	for r := 1; r < 32; r++ {
		if v, ok := concrete[r]; ok {
			init.reg[r] = v
		} else {
			init.reg[r] = vp.I32(regNames[r])
		}
	}
	symFrom, symTo := 0, memSize
	if vp.S("symmem") != "" {
		symFrom, symTo = parseRange(vp.S("symmem"))
	}
	for i := symFrom; i < symTo; i++ {
		init.mem[i] = vp.I8("m" + vp.Itoa(i))
	}
	// the budget comes from the sequential reference (also rules out div-by-zero paths)
	ref := &refState{mem: append([]int8(nil), init.mem...)}
	ref.reg = init.reg
	ref.run(parseProg(progText), vp.N("maxsteps"))
	if ref.fault != "" {
		return
	}
	budget := vp.N("budgetk") * (ref.executed + 2) * memoryAccess
	parse := func() risc.Application {
		app, err := risc.Parse(progText)
		vp.Assume(err == nil)
		return app
	}
	switch vp.S("mode") {
	case "order":
		vp.Policy(vp.N("policy1"))
		a := runOnce(variant, memSize, parse(), init, budget)
		vp.Policy(vp.N("policy2"))
		b := runOnce(variant, memSize, parse(), init, budget)
		vp.Policy(0)
		sameOutcome(a, b, memSize)
	case "repeat":
		// what ran earlier in the process must not matter: the written package-level variables hold arbitrary values
		comp.Delta = int(vp.I64("delta"))
		mvp8_0.VerifHavoc(int(vp.I64("g1")), int(vp.I64("g2")))
		a := runOnce(variant, memSize, parse(), init, budget)
		b := runOnce(variant, memSize, parse(), init, budget)
		sameOutcome(a, b, memSize)
	case "reuse":
		app := parse()
		runOnce(variant, memSize, app, init, budget) // first user of the parsed program
		v2 := vp.S("variant2")
		b := runOnce(v2, memSize, app, init, budget)
		c := runOnce(v2, memSize, parse(), init, budget)
		sameOutcome(b, c, memSize)
	}
	vp.Cover("end")
}

func parseApp(text string) (risc.Application, error) { return risc.Parse(text) }
