package cache

// C13 (second sentence): the generic key-value LRU used for unit selection
// obeys the recency order of its reference model.

import vp "github.com/teivah/majorana/verifvp"

func VerifC13Generic() {
	capacity, k, nkeys := vp.N("cap"), vp.N("k"), vp.N("keys")
	c := NewLRUCache[int, int32](capacity)
	var order []int // least recently used first
	vals := map[int]int32{}
	touch := func(key int) {
		for i, x := range order {
			if x == key {
				order = append(append([]int{}, order[:i]...), order[i+1:]...)
				break
			}
		}
		order = append(order, key)
	}
	// Concrete warm-up: pre puts of distinct keys 0..pre-1 (pre > capacity: the
	// symbolic history starts from a cache that has already displaced keys, so
	// that a second, third... displacement is inside the bound).
	for x := 0; x < vp.N("pre"); x++ {
		key := x % nkeys
		if _, ok := vals[key]; !ok && len(order) == capacity {
			delete(vals, order[0])
			order = order[1:]
		}
		c.Put(key, int32(100+x))
		vals[key] = int32(100 + x)
		touch(key)
	}
	for i := 0; i < k; i++ {
		tag := vp.Itoa(i)
		switch vp.Choice("op"+tag, 3) {
		case 0:
			key := vp.Choice("key"+tag, nkeys)
			v := vp.I32("v" + tag)
			if _, ok := vals[key]; !ok && len(order) == capacity {
				vp.Cover("evicted")
				delete(vals, order[0])
				order = order[1:]
			}
			c.Put(key, v)
			vals[key] = v
			touch(key)
		case 1:
			key := vp.Choice("key"+tag, nkeys)
			got, ok := c.Get(key)
			want, present := vals[key]
			vp.Assert(ok == present, "get:present")
			if ok && present {
				vp.Assert(got == want, "get:value")
				touch(key)
			}
		case 2: // Find among a subset of keys (bit mask): least recently used candidate, which becomes most recent
			mask := 1 + vp.Choice("mask"+tag, (1<<uint(nkeys))-1)
			var keys []int
			for x := 0; x < nkeys; x++ {
				if mask>>uint(x)&1 == 1 {
					keys = append(keys, x)
				}
			}
			got, ok := c.Find(keys)
			want, found := 0, false
			for _, x := range order {
				if mask>>uint(x)&1 == 1 {
					want, found = x, true
					break
				}
			}
			vp.Assert(ok == found, "find:exists")
			if ok && found {
				vp.Assert(got == want, "find:least-recent-candidate")
				touch(want)
			}
		}
		// resident keys and their values
		for x := 0; x < nkeys; x++ {
			_, present := vals[x]
			_, ok := c.cache[x]
			vp.Assert(ok == present, "resident-set")
		}
		vp.Assert(len(c.cache) <= capacity, "capacity")
	}
	vp.Cover("end")
}
