package bytes

import "github.com/teivah/majorana/verifvp"

func VerifC16RoundTrip() {
	n := verifvp.I32("n")
	b := BytesFromLowBits(n)
	verifvp.Assert(I32FromBytes(b[0], b[1], b[2], b[3]) == n, "roundtrip")
	for i := 0; i < 4; i++ {
		verifvp.Assert(uint8(b[i]) == uint8(uint32(n)>>(8*uint(i))), "byte-is-bits")
	}
	verifvp.Cover("end")
}

func VerifC16Bytes() {
	q0, q1, q2, q3 := verifvp.I8("q0"), verifvp.I8("q1"), verifvp.I8("q2"), verifvp.I8("q3")
	w := I32FromBytes(q0, q1, q2, q3)
	b := BytesFromLowBits(w)
	verifvp.Assert(b[0] == q0 && b[1] == q1 && b[2] == q2 && b[3] == q3, "bytes-roundtrip")
	want := uint32(uint8(q0)) | uint32(uint8(q1))<<8 | uint32(uint8(q2))<<16 | uint32(uint8(q3))<<24
	verifvp.Assert(uint32(w) == want, "little-endian")
	verifvp.Cover("end")
}
