package risc

// C11 harnesses: risc.Parse on strings whose bytes are SMT variables.
// (T) totality on one- and two-line inputs made of a concrete mnemonic prefix
//     and arbitrary ASCII bytes; (O) the operand parsers alone; (L) layout:
//     small programs whose indentation, mnemonic case, blank lines, comments and
//     decimal digits are symbolic, decoded operands probed through the
//     instruction API and compared with the harness's own values.

import vp "github.com/teivah/majorana/verifvp"

func c11ascii(s string, allowNewline bool) {
	for i := 0; i < len(s); i++ {
		vp.Assume(s[i] < 0x80)
		if !allowNewline {
			vp.Assume(s[i] != '\n')
		}
	}
}

func c11space(b byte) bool {
	return vp.Fork(b == ' ' || b == '\t' || b == '\n' || b == '\v' || b == '\f' || b == '\r')
}

// c11classify: the harness's own reading of one line: 0 blank/comment,
// 1 label, 2 instruction line.
func c11classify(line string) int {
	i, j := 0, len(line)
	for i < j && c11space(line[i]) {
		i++
	}
	for j > i && c11space(line[j-1]) {
		j--
	}
	if i == j {
		return 0
	}
	if vp.Fork(line[i] == '#') {
		return 0
	}
	hasSpace := false
	for x := i; x < j; x++ {
		if vp.Fork(line[x] == ' ') {
			hasSpace = true
			break
		}
	}
	if !hasSpace && vp.Fork(line[j-1] == ':') {
		return 1
	}
	return 2
}

// VerifC11Totality: parameters prefix (concrete text), n (symbolic bytes
// appended), prefix2/n2 (optional second line: "\n" + prefix2 + n2 symbolic bytes).
func VerifC11Totality() {
	x := vp.Str("x", vp.N("n"))
	c11ascii(x, false)
	line1 := vp.S("prefix") + x
	text := line1
	lines := []string{line1}
	if vp.N("two") == 1 {
		y := vp.Str("y", vp.N("n2"))
		c11ascii(y, false)
		line2 := vp.S("prefix2") + y
		text = line1 + "\n" + line2
		lines = append(lines, line2)
	}
	app, err := Parse(text) // any panic here is reported by the executor with a model
	vp.Cover("parsed")
	if err != nil {
		vp.Cover("rejected")
		vp.Assert(len(app.Instructions) == 0 && len(app.Labels) == 0, "error-means-no-program")
		return
	}
	vp.Cover("accepted")
	want, labels := 0, 0
	for _, l := range lines {
		switch c11classify(l) {
		case 1:
			labels++
		case 2:
			want++
		}
	}
	vp.Assert(len(app.Instructions) == want, "instruction-count")
	vp.Assert(len(app.Labels) <= labels, "label-count")
	for _, in := range app.Instructions {
		vp.Assert(in != nil, "nil-instruction")
	}
	vp.Cover("end")
}

// VerifC11Operand: parseOffsetReg / parseRegister on n arbitrary ASCII bytes.
func VerifC11Operand() {
	s := vp.Str("s", vp.N("n"))
	c11ascii(s, true)
	if vp.N("which") == 0 {
		imm, reg, err := parseOffsetReg(s)
		if err == nil {
			vp.Cover("accepted")
			vp.Assert(reg <= T6, "register-range")
			_ = imm
		}
	} else {
		reg, err := parseRegister(s)
		if err == nil {
			vp.Cover("accepted")
			vp.Assert(reg <= T6, "register-range")
		} else {
			vp.Assert(reg == 0, "error-zero-value")
		}
	}
	vp.Cover("end")
}

// ---- layout ----

// c11indent: two whitespace bytes, each a space or a tab chosen by a symbolic bit.
func c11indent(name string) string {
	b := make([]byte, 2)
	for i := range b {
		b[i] = '\t'
		if vp.Bool(name + "_" + vp.Itoa(i)) {
			b[i] = ' '
		}
	}
	return string(b)
}

// c11case returns word with the case of every letter chosen by a symbolic bit.
func c11case(name, word string) string {
	b := []byte(word)
	for i := range b {
		if vp.Bool(name + "_" + vp.Itoa(i)) {
			b[i] &^= 0x20
		}
	}
	return string(b)
}

func c11comment(name string) string {
	if vp.Choice(name+"c", 2) == 0 {
		return ""
	}
	c := vp.Str(name, 2)
	c11ascii(c, false)
	return " #" + c
}

// c11imm: a decimal immediate: symbolic sign choice, two symbolic digits.
func c11imm(name string) (string, int32) {
	d := vp.Str(name, 2)
	var v int32
	for i := 0; i < len(d); i++ {
		vp.Assume(d[i] >= '0' && d[i] <= '9')
		v = v*10 + int32(d[i]-'0')
	}
	switch vp.Choice(name+"sg", 3) {
	case 1:
		return "-" + d, -v
	case 2:
		return "+" + d, v
	}
	return d, v
}

type c11want struct {
	typ    InstructionType
	reads  []RegisterType
	writes []RegisterType
	imm    int32
	hasImm bool
	label  string
}

// c11reg: the k-th register of job parameter "regs" ("t0,a0,s11"), with a "$"
// prefix when parameter dollar=1.
func c11reg(k int) (string, RegisterType) {
	names := vp.S("regs")
	var parts []string
	start := 0
	for i := 0; i <= len(names); i++ {
		if i == len(names) || names[i] == ',' {
			parts = append(parts, names[start:i])
			start = i + 1
		}
	}
	n := parts[k]
	r, err := parseRegisterRef(n)
	if err != nil {
		panic("c11reg " + n)
	}
	if vp.N("dollar") == 1 {
		n = "$" + n
	}
	return n, r
}

var c11names = []string{"zero", "ra", "sp", "gp", "tp", "t0", "t1", "t2", "s0", "s1", "a0", "a1", "a2", "a3", "a4", "a5", "a6", "a7",
	"s2", "s3", "s4", "s5", "s6", "s7", "s8", "s9", "s10", "s11", "t3", "t4", "t5", "t6"}

// parseRegisterRef is the harness's own name table (ABI order = enum order).
func parseRegisterRef(n string) (RegisterType, error) {
	for i, x := range c11names {
		if x == n {
			return RegisterType(i), nil
		}
	}
	return 0, errC11{}
}

type errC11 struct{}

func (errC11) Error() string { return "unknown" }

func c11sep(name string) string {
	if vp.Choice(name, 2) == 0 {
		return ","
	}
	return " , "
}

// VerifC11Registers: every register name, with and without "$", decodes to the
// register of that name (concrete, all 64 spellings), and names at distance one
// byte from a valid one are rejected or map to the right register.
func VerifC11Registers() {
	for i, n := range c11names {
		r, err := parseRegister(n)
		vp.Assert(err == nil && r == RegisterType(i), "register-table")
		r, err = parseRegister("$" + n)
		vp.Assert(err == nil && r == RegisterType(i), "register-table")
	}
	vp.Cover("end")
}

// VerifC11Layout: parameter lines (number of lines, each chosen among blank,
// comment, label, instruction templates).
func VerifC11Layout() {
	n := vp.N("lines")
	text := ""
	var want []c11want
	labelAt := map[string]int32{}
	nlabels := 0
	for i := 0; i < n; i++ {
		tag := vp.Itoa(i)
		line := ""
		kind := vp.Choice("kind"+tag, 9)
		sep := ","
		if kind >= 3 && kind <= 6 {
			sep = c11sep("sep" + tag)
		}
		switch kind {
		case 0: // blank
			line = c11indent("b" + tag)
		case 1: // full-line comment
			c := vp.Str("c"+tag, 2)
			c11ascii(c, false)
			line = c11indent("ci"+tag) + "#" + c
		case 2: // label
			name := "L" + vp.Itoa(nlabels)
			nlabels++
			labelAt[name] = int32(4 * len(want))
			line = c11indent("li"+tag) + name + ":" + c11indent("lt"+tag)
		case 3:
			rd, rdv := c11reg(0)
			r1, r1v := c11reg(1)
			r2, r2v := c11reg(2)
			line = c11indent("i"+tag) + c11case("m"+tag, "add") + " " + rd + sep + r1 + sep + r2 + c11comment("k"+tag)
			want = append(want, c11want{typ: Add, reads: []RegisterType{r1v, r2v}, writes: []RegisterType{rdv}})
		case 4:
			rd, rdv := c11reg(0)
			r1, r1v := c11reg(1)
			imm, v := c11imm("im" + tag)
			line = c11indent("i"+tag) + c11case("m"+tag, "addi") + " " + rd + sep + r1 + sep + imm + c11comment("k"+tag)
			want = append(want, c11want{typ: Addi, reads: []RegisterType{r1v}, writes: []RegisterType{rdv}, imm: v, hasImm: true})
		case 5:
			rd, rdv := c11reg(0)
			r1, r1v := c11reg(1)
			imm, v := c11imm("im" + tag)
			line = c11indent("i"+tag) + c11case("m"+tag, "lw") + " " + rd + sep + imm + "(" + r1 + ")" + c11comment("k"+tag)
			want = append(want, c11want{typ: Lw, reads: []RegisterType{r1v}, writes: []RegisterType{rdv}, imm: v, hasImm: true})
		case 6:
			r1, r1v := c11reg(1)
			r2, r2v := c11reg(2)
			line = c11indent("i"+tag) + c11case("m"+tag, "beq") + " " + r1 + sep + r2 + sep + "L0" + c11comment("k"+tag)
			want = append(want, c11want{typ: Beq, reads: []RegisterType{r1v, r2v}, label: "L0"})
		case 7:
			line = c11indent("i"+tag) + c11case("m"+tag, "j") + " L0" + c11comment("k"+tag)
			want = append(want, c11want{typ: J, label: "L0"})
		case 8:
			line = c11indent("i"+tag) + c11case("m"+tag, "ret") + c11indent("rt"+tag)
			want = append(want, c11want{typ: Ret})
		}
		text += line
		if i < n-1 || vp.Choice("trail", 2) == 1 {
			text += "\n"
		}
	}
	app, err := Parse(text)
	vp.Assert(err == nil, "accepted")
	if err != nil {
		return
	}
	vp.Assert(len(app.Instructions) == len(want), "instruction-count")
	vp.Assert(len(app.Labels) == len(labelAt), "label-count")
	for name, at := range labelAt {
		got, ok := app.Labels[name]
		vp.Assert(ok && got == at, "label-address")
	}
	for i, w := range want {
		if i >= len(app.Instructions) {
			break
		}
		in := app.Instructions[i]
		vp.Assert(in.InstructionType() == w.typ, "instruction-type")
		if in.InstructionType() != w.typ {
			continue
		}
		vp.Assert(c02set(in.ReadRegisters()) == c02set(w.reads) && c02set(in.WriteRegisters()) == c02set(w.writes), "registers")
		ctx := NewContext(false, 8, false)
		switch w.typ {
		case Add:
			// operand order: rs1 and rs2 are read in this order, rd first
			rr := in.ReadRegisters()
			vp.Assert(len(rr) == 2 && rr[0] == w.reads[0] && rr[1] == w.reads[1], "operand-order")
		case Addi:
			exe, _ := in.Run(ctx, nil, 0, nil, 0)
			if w.writes[0] != Zero {
				vp.Assert(exe.RegisterValue == w.imm, "immediate")
			}
		case Lw:
			addrs := in.MemoryRead(ctx, 0)
			vp.Assert(len(addrs) == 4 && addrs[0] == w.imm, "offset")
		case Beq, J:
			exe, rerr := in.Run(ctx, app.Labels, 0, nil, 0)
			at, defined := labelAt[w.label]
			if defined {
				vp.Assert(rerr == nil && exe.PcChange && exe.NextPc == at, "label-target")
			} else {
				vp.Assert(rerr != nil, "undefined-label-is-error")
			}
		}
	}
	vp.Cover("end")
}
