package risc

// C02 harness: one instruction, built directly as its op struct with concrete
// register names (job parameter "regs") and SYMBOLIC register values,
// immediates, offsets, pc, branch target and memory bytes. The oracle is the
// RV32IM definition written out below with explicit uint32 conversions; it does
// not call common/bytes or any function of opcodes.go.

import vp "github.com/teivah/majorana/verifvp"

type c02env struct {
	ctx *Context
	v   map[RegisterType]int32
}

var c02regs = []RegisterType{Ra, T0, T1, T2}

func c02reg(s string) RegisterType {
	switch s {
	case "zero":
		return Zero
	case "ra":
		return Ra
	case "t0":
		return T0
	case "t1":
		return T1
	case "t2":
		return T2
	}
	panic("c02reg " + s)
}

// c02pat splits "t2,t0,t1".
func c02pat() []RegisterType {
	s := vp.S("regs")
	var out []RegisterType
	start := 0
	for i := 0; i <= len(s); i++ {
		if i == len(s) || s[i] == ',' {
			if i > start {
				out = append(out, c02reg(s[start:i]))
			}
			start = i + 1
		}
	}
	return out
}

func c02new() *c02env {
	rat := vp.N("rat") == 1
	e := &c02env{ctx: NewContext(false, 16, rat), v: map[RegisterType]int32{}}
	e.v[Ra] = vp.I32("ra")
	e.v[T0] = vp.I32("t0")
	e.v[T1] = vp.I32("t1")
	e.v[T2] = vp.I32("t2")
	for _, r := range c02regs {
		e.ctx.Registers[r] = e.v[r]
	}
	if rat {
		e.ctx.InitRAT()
	}
	return e
}

func (e *c02env) val(r RegisterType) int32 {
	if r == Zero {
		return 0
	}
	return e.v[r]
}

// unchanged: Run/MemoryRead/MemoryWrite are pure with respect to the context.
func (e *c02env) unchanged() {
	ok := len(e.ctx.Registers) == len(c02regs) && len(e.ctx.Transaction) == 0
	for _, r := range c02regs {
		ok = ok && e.ctx.Registers[r] == e.v[r]
		ok = ok && registerRead(e.ctx, Forward{}, r, 0) == e.v[r]
	}
	_, hasZero := e.ctx.Registers[Zero]
	vp.Assert(ok && !hasZero, "ctx-unchanged")
	vp.Assert(registerRead(e.ctx, Forward{}, Zero, 0) == 0, "zero-reads-0")
}

func c02set(rs []RegisterType) uint64 {
	var m uint64
	for _, r := range rs {
		if r != Zero {
			m |= 1 << uint(r)
		}
	}
	return m
}

func c02decl(op InstructionRunner, reads, writes []RegisterType) {
	vp.Assert(c02set(op.ReadRegisters()) == c02set(reads), "read-set")
	vp.Assert(c02set(op.WriteRegisters()) == c02set(writes), "write-set")
}

func (e *c02env) regResult(exe Execution, err error, rd RegisterType, want int32) {
	vp.Assert(err == nil, "err")
	if err != nil {
		return
	}
	vp.Assert(exe.RegisterChange && !exe.MemoryChange && !exe.Return, "flags")
	if rd == Zero {
		vp.Assert(exe.Register == Zero && exe.RegisterValue == 0, "zero-rd")
	} else {
		vp.Assert(exe.Register == rd, "rd")
		vp.Assert(exe.RegisterValue == want, "value")
	}
}

func b2i(c bool) int32 {
	if c {
		return 1
	}
	return 0
}

func c02pc() int32 {
	pc := vp.I32("pc")
	vp.Assume(pc >= 0 && pc < 1<<20 && pc%4 == 0)
	return pc
}

func c02noMem(e *c02env, op InstructionRunner) {
	vp.Assert(len(op.MemoryRead(e.ctx, 0)) == 0 && len(op.MemoryWrite(e.ctx, 0)) == 0, "no-mem")
}

var c02immText string

// c02imm: a symbolic immediate. via=struct: any int32. via=parse: a decimal
// text of two symbolic digits with a symbolic sign choice (the value the
// assembler must decode).
func c02imm(name string) int32 {
	if vp.S("via") != "parse" {
		return vp.I32(name)
	}
	txt, v := c11imm(name)
	c02immText = txt
	return v
}

func c02name(r RegisterType) string { return c11names[r] }

// c02via: via=parse replaces the directly built op by the one risc.Parse
// decodes from the assembly text (the observation point named by the property),
// followed by a label and a ret so that pc accounting is checked too.
func c02via(op InstructionRunner, text string) InstructionRunner {
	if vp.S("via") != "parse" {
		return op
	}
	app, err := Parse(text + "\nZ:\nret\n")
	vp.Assert(err == nil && len(app.Instructions) == 2, "parse:accepted")
	if err != nil || len(app.Instructions) != 2 {
		vp.Assume(false)
	}
	vp.Assert(app.Labels["Z"] == 4, "parse:pc-accounting")
	return app.Instructions[0]
}

// VerifC02 checks the instruction named by job parameter "op".
func VerifC02() {
	mn := vp.S("op")
	p := c02pat()
	e := c02new()
	pc := c02pc()
	switch mn {
	case "add", "sub", "and", "or", "xor", "mul", "div", "rem", "sll", "srl", "sra", "slt", "sltu":
		rd, rs1, rs2 := p[0], p[1], p[2]
		a, b := e.val(rs1), e.val(rs2)
		var op InstructionRunner
		var want int32
		sh := uint32(b) & 31
		switch mn {
		case "add":
			op, want = &add{rd: rd, rs1: rs1, rs2: rs2}, a+b
		case "sub":
			op, want = &sub{rd: rd, rs1: rs1, rs2: rs2}, a-b
		case "and":
			op, want = &and{rd: rd, rs1: rs1, rs2: rs2}, a&b
		case "or":
			op, want = &or{rd: rd, rs1: rs1, rs2: rs2}, a|b
		case "xor":
			op, want = &xor{rd: rd, rs1: rs1, rs2: rs2}, a^b
		case "mul":
			op, want = &mul{rd: rd, rs1: rs1, rs2: rs2}, a*b
		case "sll":
			op, want = &sll{rd: rd, rs1: rs1, rs2: rs2}, int32(uint32(a)<<sh)
		case "srl":
			op, want = &srl{rd: rd, rs1: rs1, rs2: rs2}, int32(uint32(a)>>sh)
		case "sra":
			op, want = &sra{rd: rd, rs1: rs1, rs2: rs2}, a>>sh
		case "slt":
			op, want = &slt{rd: rd, rs1: rs1, rs2: rs2}, b2i(a < b)
		case "sltu":
			op, want = &sltu{rd: rd, rs1: rs1, rs2: rs2}, b2i(uint32(a) < uint32(b))
		case "div":
			op = &div{rd: rd, rs1: rs1, rs2: rs2}
		case "rem":
			op = &rem{rd: rd, rs1: rs1, rs2: rs2}
		}
		op = c02via(op, mn+" "+c02name(rd)+", "+c02name(rs1)+", "+c02name(rs2))
		c02decl(op, []RegisterType{rs1, rs2}, []RegisterType{rd})
		c02noMem(e, op)
		if mn == "div" || mn == "rem" {
			// division by zero is an error value (never a panic); otherwise truncated
			// signed division, MinInt32 / -1 wraps
			if b == 0 {
				vp.Cover("div0")
				_, err := op.Run(e.ctx, nil, pc, nil, 0)
				vp.Assert(err != nil, "div0-is-error")
				e.unchanged()
				vp.Cover("end")
				return
			}
			if mn == "div" {
				want = a / b
			} else {
				want = a % b
			}
		}
		exe, err := op.Run(e.ctx, nil, pc, nil, 0)
		e.regResult(exe, err, rd, want)
		vp.Assert(!exe.PcChange, "no-pc-change")
		e.unchanged()
	case "addi", "andi", "ori", "xori", "slti", "slli", "srli", "srai":
		rd, rs := p[0], p[1]
		a := e.val(rs)
		imm := c02imm("imm")
		var op InstructionRunner
		var want int32
		switch mn {
		case "addi":
			op, want = &addi{rd: rd, rs: rs, imm: imm}, a+imm
		case "andi":
			op, want = &andi{rd: rd, rs: rs, imm: imm}, a&imm
		case "ori":
			op, want = &ori{rd: rd, rs: rs, imm: imm}, a|imm
		case "xori":
			op, want = &xori{rd: rd, rs: rs, imm: imm}, a^imm
		case "slti":
			op, want = &slti{rd: rd, rs: rs, imm: imm}, b2i(a < imm)
		case "slli":
			vp.Assume(imm >= 0 && imm < 32)
			op, want = &slli{rd: rd, rs: rs, imm: imm}, int32(uint32(a)<<uint32(imm))
		case "srli":
			vp.Assume(imm >= 0 && imm < 32)
			op, want = &srli{rd: rd, rs: rs, imm: imm}, int32(uint32(a)>>uint32(imm))
		case "srai":
			vp.Assume(imm >= 0 && imm < 32)
			op, want = &srai{rd: rd, rs: rs, imm: imm}, a>>uint32(imm)
		}
		op = c02via(op, mn+" "+c02name(rd)+", "+c02name(rs)+", "+c02immText)
		c02decl(op, []RegisterType{rs}, []RegisterType{rd})
		c02noMem(e, op)
		exe, err := op.Run(e.ctx, nil, pc, nil, 0)
		e.regResult(exe, err, rd, want)
		vp.Assert(!exe.PcChange, "no-pc-change")
		e.unchanged()
	case "mv":
		rd, rs := p[0], p[1]
		var op InstructionRunner = &mv{rd: rd, rs: rs}
		op = c02via(op, "mv "+c02name(rd)+", "+c02name(rs))
		c02decl(op, []RegisterType{rs}, []RegisterType{rd})
		c02noMem(e, op)
		exe, err := op.Run(e.ctx, nil, pc, nil, 0)
		e.regResult(exe, err, rd, e.val(rs))
		vp.Assert(!exe.PcChange, "no-pc-change")
		e.unchanged()
	case "li", "lui", "auipc":
		rd := p[0]
		imm := c02imm("imm")
		var op InstructionRunner
		var want int32
		switch mn {
		case "li":
			op, want = &li{rd: rd, imm: imm}, imm
		case "lui":
			op, want = &lui{rd: rd, imm: imm}, int32(uint32(imm)<<12)
		case "auipc":
			op, want = &auipc{rd: rd, imm: imm}, pc+int32(uint32(imm)<<12)
		}
		op = c02via(op, mn+" "+c02name(rd)+", "+c02immText)
		c02decl(op, nil, []RegisterType{rd})
		c02noMem(e, op)
		exe, err := op.Run(e.ctx, nil, pc, nil, 0)
		e.regResult(exe, err, rd, want)
		vp.Assert(!exe.PcChange, "no-pc-change")
		e.unchanged()
	case "beq", "bne", "blt", "bge", "ble", "bltu", "bgeu", "beqz", "bnez":
		var rs1, rs2 RegisterType
		var op InstructionRunner
		var taken bool
		if mn == "beqz" || mn == "bnez" {
			rs1 = p[0]
			a := e.val(rs1)
			if mn == "beqz" {
				op, taken = &beqz{rs: rs1, label: "L"}, a == 0
			} else {
				op, taken = &bnez{rs: rs1, label: "L"}, a != 0
			}
			op = c02via(op, mn+" "+c02name(rs1)+", L")
			c02decl(op, []RegisterType{rs1}, nil)
		} else {
			rs1, rs2 = p[0], p[1]
			a, b := e.val(rs1), e.val(rs2)
			switch mn {
			case "beq":
				op, taken = &beq{rs1: rs1, rs2: rs2, label: "L"}, a == b
			case "bne":
				op, taken = &bne{rs1: rs1, rs2: rs2, label: "L"}, a != b
			case "blt":
				op, taken = &blt{rs1: rs1, rs2: rs2, label: "L"}, a < b
			case "bge":
				op, taken = &bge{rs1: rs1, rs2: rs2, label: "L"}, a >= b
			case "ble":
				op, taken = &ble{rs1: rs1, rs2: rs2, label: "L"}, a <= b
			case "bltu":
				op, taken = &bltu{rs1: rs1, rs2: rs2, label: "L"}, uint32(a) < uint32(b)
			case "bgeu":
				op, taken = &bgeu{rs1: rs1, rs2: rs2, label: "L"}, uint32(a) >= uint32(b)
			}
			op = c02via(op, mn+" "+c02name(rs1)+", "+c02name(rs2)+", L")
			c02decl(op, []RegisterType{rs1, rs2}, nil)
		}
		c02noMem(e, op)
		target := vp.I32("target")
		vp.Assume(target >= 0 && target < 1<<20 && target%4 == 0)
		labels := map[string]int32{"L": target}
		if vp.N("nolabel") == 1 {
			// undefined label: an error value when the branch is taken, never a panic
			labels = map[string]int32{"other": target}
			exe, err := op.Run(e.ctx, labels, pc, nil, 0)
			if taken {
				vp.Assert(err != nil, "undefined-label-is-error")
			} else {
				vp.Assert(err == nil && !exe.PcChange, "not-taken")
			}
			e.unchanged()
			vp.Cover("end")
			return
		}
		exe, err := op.Run(e.ctx, labels, pc, nil, 0)
		vp.Assert(err == nil, "err")
		vp.Assert(!exe.RegisterChange && !exe.MemoryChange && !exe.Return, "flags")
		if taken {
			vp.Cover("taken")
			vp.Assert(exe.PcChange, "decision")
			vp.Assert(exe.NextPc == target, "target")
		} else {
			vp.Cover("not-taken")
			vp.Assert(!exe.PcChange, "decision")
		}
		e.unchanged()
	case "j", "jal":
		target := vp.I32("target")
		vp.Assume(target >= 0 && target < 1<<20 && target%4 == 0)
		labels := map[string]int32{"L": target}
		var op InstructionRunner
		rd := Zero
		if mn == "j" {
			op = &j{label: "L"}
			op = c02via(op, "j L")
			c02decl(op, nil, nil)
		} else {
			rd = p[0]
			op = &jal{label: "L", rd: rd}
			op = c02via(op, "jal "+c02name(rd)+", L")
			c02decl(op, nil, []RegisterType{rd})
		}
		c02noMem(e, op)
		if vp.N("nolabel") == 1 {
			_, err := op.Run(e.ctx, map[string]int32{"other": target}, pc, nil, 0)
			vp.Assert(err != nil, "undefined-label-is-error")
			e.unchanged()
			vp.Cover("end")
			return
		}
		exe, err := op.Run(e.ctx, labels, pc, nil, 0)
		vp.Assert(err == nil, "err")
		vp.Assert(exe.PcChange && exe.NextPc == target, "target")
		vp.Assert(!exe.MemoryChange && !exe.Return, "flags")
		if mn == "jal" {
			e.regResult(exe, err, rd, pc+4)
		} else {
			vp.Assert(!exe.RegisterChange, "flags")
		}
		e.unchanged()
	case "jalr":
		rd, rs := p[0], p[1]
		imm := c02imm("imm")
		var op InstructionRunner = &jalr{rd: rd, rs: rs, imm: imm}
		op = c02via(op, "jalr "+c02name(rd)+", "+c02name(rs)+", "+c02immText)
		c02decl(op, []RegisterType{rs}, []RegisterType{rd})
		c02noMem(e, op)
		exe, err := op.Run(e.ctx, nil, pc, nil, 0)
		e.regResult(exe, err, rd, pc+4)
		vp.Assert(exe.PcChange && exe.NextPc == e.val(rs)+imm, "target")
		e.unchanged()
	case "lb", "lh", "lw":
		rd, rs := p[0], p[1]
		off := c02imm("off")
		addr := e.val(rs) + off
		m0, m1, m2, m3 := vp.I8("m0"), vp.I8("m1"), vp.I8("m2"), vp.I8("m3")
		var op InstructionRunner
		var want int32
		var k int
		switch mn {
		case "lb":
			op, k, want = &lb{rd: rd, offset: off, rs: rs}, 1, int32(m0)
		case "lh":
			op, k, want = &lh{rd: rd, offset: off, rs: rs}, 2, int32(int16(uint16(uint8(m0))|uint16(uint8(m1))<<8))
		case "lw":
			op, k, want = &lw{rd: rd, offset: off, rs: rs}, 4, int32(uint32(uint8(m0))|uint32(uint8(m1))<<8|uint32(uint8(m2))<<16|uint32(uint8(m3))<<24)
		}
		op = c02via(op, mn+" "+c02name(rd)+", "+c02immText+"("+c02name(rs)+")")
		c02decl(op, []RegisterType{rs}, []RegisterType{rd})
		addrs := op.MemoryRead(e.ctx, 0)
		vp.Assert(len(addrs) == k, "load-addrs")
		for i := 0; i < k && i < len(addrs); i++ {
			vp.Assert(addrs[i] == addr+int32(i), "load-addrs")
		}
		vp.Assert(len(op.MemoryWrite(e.ctx, 0)) == 0, "no-mem-write")
		exe, err := op.Run(e.ctx, nil, pc, []int8{m0, m1, m2, m3}[:k], 0)
		e.regResult(exe, err, rd, want)
		vp.Assert(!exe.PcChange, "no-pc-change")
		e.unchanged()
	case "sb", "sh", "sw":
		base, data := p[0], p[1]
		off := c02imm("off")
		addr := e.val(base) + off
		d := uint32(e.val(data))
		var op InstructionRunner
		var k int
		switch mn {
		case "sb":
			op, k = &sb{rs: data, offset: off, rd: base}, 1
		case "sh":
			op, k = &sh{rs: data, offset: off, rd: base}, 2
		case "sw":
			op, k = &sw{rs: data, offset: off, rd: base}, 4
		}
		if mn == "sh" {
			op = c02via(op, "sh "+c02name(data)+", "+c02immText+", "+c02name(base)) // this assembler writes sh with three operands
		} else {
			op = c02via(op, mn+" "+c02name(data)+", "+c02immText+"("+c02name(base)+")")
		}
		c02decl(op, []RegisterType{base, data}, nil)
		addrs := op.MemoryWrite(e.ctx, 0)
		vp.Assert(len(addrs) == k, "store-addrs")
		for i := 0; i < k && i < len(addrs); i++ {
			vp.Assert(addrs[i] == addr+int32(i), "store-addrs")
		}
		vp.Assert(len(op.MemoryRead(e.ctx, 0)) == 0, "no-mem-read")
		exe, err := op.Run(e.ctx, nil, pc, nil, 0)
		vp.Assert(err == nil, "err")
		vp.Assert(exe.MemoryChange && !exe.RegisterChange && !exe.PcChange && !exe.Return, "flags")
		vp.Assert(len(exe.MemoryChanges) == k, "stored-count")
		for i := 0; i < k; i++ {
			got, ok := exe.MemoryChanges[addr+int32(i)]
			vp.Assert(ok, "stored-addr")
			vp.Assert(uint8(got) == uint8(d>>(8*uint(i))), "stored-bytes")
		}
		e.unchanged()
	case "nop", "ret":
		var op InstructionRunner
		if mn == "nop" {
			op = &nop{}
		} else {
			op = &ret{}
		}
		op = c02via(op, mn)
		c02decl(op, nil, nil)
		c02noMem(e, op)
		exe, err := op.Run(e.ctx, nil, pc, nil, 0)
		vp.Assert(err == nil, "err")
		vp.Assert(!exe.RegisterChange && !exe.MemoryChange && !exe.PcChange && exe.Return == (mn == "ret"), "flags")
		e.unchanged()
	default:
		panic("VerifC02: unknown mnemonic " + mn)
	}
	vp.Cover("end")
}

// VerifC02Parse: the observation point named by the property — a
// one-instruction Application built by risc.Parse — decodes to the same op the
// struct-level harness checks (concrete text from job parameter "text"; the
// mnemonic's InstructionType and register sets are compared with "want").
func VerifC02Parse() {
	app, err := Parse(vp.S("text"))
	vp.Assert(err == nil && len(app.Instructions) == 1, "parse")
	if err != nil || len(app.Instructions) != 1 {
		return
	}
	op := app.Instructions[0]
	vp.Assert(op.InstructionType().String() == vp.S("type"), "instruction-type")
	vp.Cover("end")
}
