package risc

import "github.com/teivah/majorana/verifvp"

func verifCtx() (*Context, int32, int32) {
	a := verifvp.I32("a")
	b := verifvp.I32("b")
	ctx := NewContext(false, 8, false)
	ctx.Registers[T0] = a
	ctx.Registers[T1] = b
	return ctx, a, b
}

func b2i(c bool) int32 {
	if c {
		return 1
	}
	return 0
}

func VerifC02Alu() {
	ctx, a, b := verifCtx()
	type tc struct {
		name string
		op   InstructionRunner
		want int32
	}
	sh := uint32(b) & 31
	cases := []tc{
		{"add", &add{rd: T2, rs1: T0, rs2: T1}, a + b},
		{"sub", &sub{rd: T2, rs1: T0, rs2: T1}, a - b},
		{"xor", &xor{rd: T2, rs1: T0, rs2: T1}, a ^ b},
		{"mul", &mul{rd: T2, rs1: T0, rs2: T1}, a * b},
		{"slt", &slt{rd: T2, rs1: T0, rs2: T1}, b2i(a < b)},
		{"sltu", &sltu{rd: T2, rs1: T0, rs2: T1}, b2i(uint32(a) < uint32(b))},
		{"sll", &sll{rd: T2, rs1: T0, rs2: T1}, int32(uint32(a) << sh)},
		{"srl", &srl{rd: T2, rs1: T0, rs2: T1}, int32(uint32(a) >> sh)},
		{"sra", &sra{rd: T2, rs1: T0, rs2: T1}, a >> sh},
	}
	for _, c := range cases {
		exe, err := c.op.Run(ctx, nil, 0, nil, 0)
		verifvp.Assert(err == nil, c.name+":err")
		verifvp.Assert(exe.RegisterChange && exe.Register == T2, c.name+":reg")
		verifvp.Assert(exe.RegisterValue == c.want, c.name+":value")
	}
	verifvp.Cover("end")
}

func VerifC02Mem() {
	ctx, a, b := verifCtx()
	off := verifvp.I32("off")
	// sw t1, off(t0): stores b at a+off
	st := &sw{rs: T1, offset: off, rd: T0}
	exe, err := st.Run(ctx, nil, 0, nil, 0)
	verifvp.Assert(err == nil && exe.MemoryChange && !exe.RegisterChange, "sw:flags")
	_ = a
	_ = exe
	// lw from four symbolic bytes
	m0, m1, m2, m3 := verifvp.I8("m0"), verifvp.I8("m1"), verifvp.I8("m2"), verifvp.I8("m3")
	ld := &lw{rd: T2, offset: off, rs: T0}
	e2, err := ld.Run(ctx, nil, 0, []int8{m0, m1, m2, m3}, 0)
	want := int32(uint32(uint8(m0)) | uint32(uint8(m1))<<8 | uint32(uint8(m2))<<16 | uint32(uint8(m3))<<24)
	verifvp.Assert(err == nil && e2.RegisterValue == want, "lw:value")
	h := &lh{rd: T2, offset: off, rs: T0}
	e3, _ := h.Run(ctx, nil, 0, []int8{m0, m1}, 0)
	wanth := int32(int16(uint16(uint8(m0)) | uint16(uint8(m1))<<8))
	verifvp.Assert(e3.RegisterValue == wanth, "lh:value")
	_ = b
	verifvp.Cover("end")
}
