package risc

// C15 harnesses: histories of tagged speculative register writes, reads,
// commits and rollbacks over the real Context (transaction map; rename table)
// with SYMBOLIC values and tags, against a list of uncommitted tagged writes.

import vp "github.com/teivah/majorana/verifvp"

type c15write struct {
	reg RegisterType
	val int32
	tag int32
}

var c15regs = []RegisterType{T0, T1}

type c15model struct {
	arch    map[RegisterType]int32 // committed architectural values
	pending []c15write             // uncommitted writes in arrival order
}

// youngest returns the value of the largest-tag pending write to reg with tag
// below limit (limit <= 0: no limit). Tags of one register are pairwise
// distinct (assumed at write time), so "largest" is unique.
func (m *c15model) youngest(reg RegisterType, limit int32) (int32, bool) {
	found := false
	var best c15write
	for _, w := range m.pending {
		if w.reg != reg {
			continue
		}
		if limit > 0 && !vp.Fork(w.tag < limit) {
			continue
		}
		if !found || vp.Fork(w.tag > best.tag) {
			best, found = w, true
		}
	}
	return best.val, found
}

func (m *c15model) count(reg RegisterType) int {
	n := 0
	for _, w := range m.pending {
		if w.reg == reg {
			n++
		}
	}
	return n
}

func c15tag(name string) int32 {
	t := vp.I32(name)
	vp.Assume(t > 0 && t < 1<<20)
	return t
}

// VerifC15: parameters rig ("map" | "rat"), k (history length), slots (1 for
// the map, 10 for the rename table: the statement's strong clauses apply while
// the uncommitted writes to one register do not exceed it), order ("any":
// writes arrive in arbitrary tag order; "program": in increasing tag order).
func VerifC15() {
	rig, k, slots, order := vp.S("rig"), vp.N("k"), vp.N("slots"), vp.S("order")
	rat := rig == "rat"
	ctx := NewContext(false, 8, rat)
	m := &c15model{arch: map[RegisterType]int32{}}
	for _, r := range c15regs {
		v := vp.I32("init_" + r.String())
		ctx.Registers[r] = v
		m.arch[r] = v
	}
	if rat {
		ctx.InitRAT()
	}
	// the architectural value of r as the machine sees it once nothing is pending
	archOf := func(r RegisterType) int32 {
		if rat {
			ctx.RATFlush()
		}
		return ctx.Registers[r]
	}
	var lastTag int32
	overflow := false
	for i := 0; i < k; i++ {
		tag := vp.Itoa(i)
		switch vp.Choice("op"+tag, 5) {
		case 4: // flush of the committed table into the register file: architecturally neutral
			vp.Assume(rat)
			ctx.RATFlush()
			for _, r := range c15regs {
				vp.Assert(ctx.Registers[r] == m.arch[r], "flush:committed-values")
			}
		case 0: // speculative write
			r := c15regs[vp.Choice("reg"+tag, len(c15regs))]
			v := vp.I32("v" + tag)
			t := c15tag("t" + tag)
			for _, w := range m.pending {
				if w.reg == r {
					vp.Assume(w.tag != t) // one instruction writes a register once
				}
			}
			if order == "program" {
				vp.Assume(t > lastTag)
				lastTag = t
			}
			exe := Execution{RegisterChange: true, Register: r, RegisterValue: v}
			if rat {
				ctx.TransactionRATWrite(exe, t)
			} else {
				ctx.TransactionWriteRegister(exe, t)
			}
			m.pending = append(m.pending, c15write{r, v, t})
			if m.count(r) > slots {
				overflow = true
			}
		case 1: // read on behalf of the instruction with tag t: never a younger instruction's value
			r := c15regs[vp.Choice("reg"+tag, len(c15regs))]
			t := c15tag("rt" + tag)
			got := registerRead(ctx, Forward{}, r, t)
			if !overflow {
				ok := got == m.arch[r]
				for _, w := range m.pending {
					if w.reg == r && vp.Fork(w.tag <= t) {
						ok = ok || got == w.val
					}
				}
				vp.Assert(ok, "read:never-a-younger-value")
			}
		case 2: // commit: every register takes its youngest uncommitted write
			vp.Cover("commit")
			if rat {
				ctx.RATCommit()
			} else {
				ctx.Commit()
			}
			for _, r := range c15regs {
				want, any := m.youngest(r, 0)
				if any {
					m.arch[r] = want
				}
			}
			m.pending = nil
			if overflow && order != "program" {
				// beyond the slots the youngest-value claim needs program-order arrival: resynchronise
				for _, r := range c15regs {
					m.arch[r] = archOf(r)
				}
			}
			overflow = false
			for _, r := range c15regs {
				vp.Assert(archOf(r) == m.arch[r], "commit:youngest-write-or-unchanged")
				vp.Assert(registerRead(ctx, Forward{}, r, 0) == m.arch[r], "commit:plain-read")
			}
		case 3: // rollback to tag s: youngest write older than s, unchanged if none
			vp.Cover("rollback")
			s := c15tag("s" + tag)
			if rat {
				ctx.RATRollback(s)
			} else {
				ctx.Rollback(s)
			}
			skip := overflow
			for _, r := range c15regs {
				want, any := m.youngest(r, s)
				if any {
					m.arch[r] = want
				}
			}
			m.pending = nil
			overflow = false
			if !skip {
				for _, r := range c15regs {
					vp.Assert(archOf(r) == m.arch[r], "rollback:youngest-older-write-or-unchanged")
					vp.Assert(registerRead(ctx, Forward{}, r, 0) == m.arch[r], "rollback:plain-read")
				}
			} else {
				// beyond the table's slots nothing is claimed for rollback: resynchronise
				for _, r := range c15regs {
					m.arch[r] = archOf(r)
				}
			}
		}
		// plain reads (no tag) see the youngest value while nothing overflowed... the
		// statement claims it even beyond the slots when writes arrive in program order
		if order == "program" {
			for _, r := range c15regs {
				want, any := m.youngest(r, 0)
				if !any {
					want = m.arch[r]
				}
				vp.Assert(registerRead(ctx, Forward{}, r, 0) == want, "plain-read:youngest")
			}
		}
	}
	vp.Cover("end")
}
