package comp

// C13 harnesses: the line cache against a most-recently-used-first list kept
// by the harness. Data bytes and probe addresses are symbolic.

import vp "github.com/teivah/majorana/verifvp"

type c13line struct {
	base int32
	data []int8
}

type c13model struct {
	lineLen int
	cap     int
	lines   []c13line // most recently used first
}

func (m *c13model) find(addr int32) int {
	for i, l := range m.lines {
		if addr >= l.base && addr < l.base+int32(m.lineLen) {
			return i
		}
	}
	return -1
}

func (m *c13model) toFront(i int) {
	l := m.lines[i]
	rest := append(append([]c13line{}, m.lines[:i]...), m.lines[i+1:]...)
	m.lines = append([]c13line{l}, rest...)
}

func (m *c13model) remove(i int) c13line {
	l := m.lines[i]
	m.lines = append(append([]c13line{}, m.lines[:i]...), m.lines[i+1:]...)
	return l
}

func c13same(got []int8, want []int8) bool {
	if len(got) != len(want) {
		return false
	}
	ok := true
	for i := range got {
		ok = ok && got[i] == want[i]
	}
	return ok
}

// compare the whole observable state: resident lines, their order, bounds and bytes
func (m *c13model) check(c *LRUCache, label string) {
	ls := c.Lines()
	vp.Assert(len(ls) == len(m.lines), label+":line-count")
	if len(ls) != len(m.lines) {
		return
	}
	for i := range ls {
		vp.Assert(int32(ls[i].Boundary[0]) == m.lines[i].base && int32(ls[i].Boundary[1]) == m.lines[i].base+int32(m.lineLen), label+":recency-order")
		vp.Assert(c13same(ls[i].Data, m.lines[i].data), label+":bytes")
	}
}

func c13data(name string, n int) ([]int8, []int8) {
	a := make([]int8, n)
	b := make([]int8, n)
	for i := range a {
		a[i] = vp.I8(name + "_" + vp.Itoa(i))
		b[i] = a[i]
	}
	return a, b
}

// c13addr: a probe address. symaddr=1: any address in [0, nbases*L) (solver
// decides all of them; used at small geometries); otherwise the corner offsets
// {0, 1, L-2, L-1} of a chosen line.
func c13addr(tag string, nbases int, L int32) int32 {
	if vp.N("symaddr") == 1 {
		addr := vp.I32("addr" + tag)
		vp.Assume(addr >= 0 && addr < int32(nbases)*L)
		return addr
	}
	base := int32(vp.Choice("abase"+tag, nbases)) * L
	off := []int32{0, 1, L - 2, L - 1}[vp.Choice("aoff"+tag, 4)]
	return base + off
}

// c13op applies one operation (chosen by vp.Choice) to cache and model.
// nbases aligned line addresses 0, L, 2L, ... are in play.
func c13op(c *LRUCache, m *c13model, i int, nbases int) {
	L := int32(m.lineLen)
	tag := vp.Itoa(i)
	switch vp.Choice("op"+tag, 6) {
	case 0: // insertion (the caller never inserts a line that is resident)
		base := int32(vp.Choice("base"+tag, nbases)) * L
		vp.Assume(m.find(base) < 0)
		d, dm := c13data("d"+tag, m.lineLen)
		evicted := c.PushLine(AlignedAddress(base), d)
		m.lines = append([]c13line{{base, dm}}, m.lines...)
		if len(m.lines) > m.cap {
			victim := m.remove(len(m.lines) - 1)
			vp.Cover("evicted")
			vp.Assert(c13same(evicted, victim.data), "push:reports-lru-victim-contents")
		} else {
			vp.Assert(len(evicted) == 0, "push:no-victim-below-capacity")
		}
	case 1: // insertion with eviction warning, then removal of the reported victim
		base := int32(vp.Choice("base"+tag, nbases)) * L
		vp.Assume(m.find(base) < 0)
		vp.Assume(len(m.lines) <= m.cap)
		d, dm := c13data("d"+tag, m.lineLen)
		w := c.PushLineWithEvictionWarning(AlignedAddress(base), d)
		m.lines = append([]c13line{{base, dm}}, m.lines...)
		if len(m.lines) > m.cap {
			victim := m.lines[len(m.lines)-1]
			vp.Cover("warned")
			vp.Assert(w != nil, "warn:victim-reported")
			if w != nil {
				vp.Assert(int32(w.Boundary[0]) == victim.base && c13same(w.Data, victim.data), "warn:reports-lru-victim")
			}
			ex := c.ExistingLines()
			vp.Assert(len(ex) == m.cap, "warn:existing-lines-hide-victim")
			for _, l := range ex {
				vp.Assert(int32(l.Boundary[0]) != victim.base, "warn:existing-lines-hide-victim")
			}
			// a line being evicted is not served to sub-line readers (the L3 -> L1 path), resident ones are
			_, _, sub := c.GetSubCacheLine([]int32{victim.base}, int32(m.lineLen))
			vp.Assert(!sub, "warn:subline-hides-victim")
			sa, sd, sub2 := c.GetSubCacheLine([]int32{base + L - 1}, int32(m.lineLen))
			vp.Assert(sub2 && int32(sa) == base && c13same(sd, dm), "warn:subline-serves-resident")
			data, ok := c.EvictCacheLine(AlignedAddress(victim.base))
			vp.Assert(ok && c13same(data, victim.data), "warn:evict-victim")
			m.remove(len(m.lines) - 1)
			vp.Assert(len(c.Lines()) == m.cap, "warn:back-to-capacity")
		} else {
			vp.Assert(w == nil, "warn:no-victim-below-capacity")
		}
	case 2: // byte read: hit moves the line to the front
		addr := c13addr(tag, nbases, L)
		v, ok := c.Get(addr)
		j := m.find(addr)
		vp.Assert(ok == (j >= 0), "get:present-iff-covered")
		if ok && j >= 0 {
			vp.Cover("hit")
			vp.Assert(v == m.lines[j].data[addr-m.lines[j].base], "get:last-written-value")
			m.toFront(j)
		}
	case 3: // write of one or two bytes inside a resident line
		addr := c13addr(tag, nbases, L)
		n := 1 + vp.Choice("n"+tag, 2)
		j := m.find(addr)
		vp.Assume(j >= 0 && m.find(addr+int32(n)-1) == j)
		d, dm := c13data("w"+tag, n)
		c.Write(addr, d)
		for x := 0; x < n; x++ {
			m.lines[j].data[addr-m.lines[j].base+int32(x)] = dm[x]
		}
	case 4: // explicit eviction
		base := int32(vp.Choice("base"+tag, nbases)) * L
		data, ok := c.EvictCacheLine(AlignedAddress(base))
		j := m.find(base)
		vp.Assert(ok == (j >= 0), "evict:present-iff-covered")
		if ok && j >= 0 {
			vp.Assert(c13same(data, m.lines[j].data), "evict:contents")
			m.remove(j)
		}
	case 5: // whole-line read (does not change recency)
		base := int32(vp.Choice("base"+tag, nbases)) * L
		data, ok := c.GetCacheLine(AlignedAddress(base))
		j := m.find(base)
		vp.Assert(ok == (j >= 0), "getline:present-iff-covered")
		if ok && j >= 0 {
			vp.Assert(c13same(data, m.lines[j].data), "getline:contents")
		}
	}
}

// VerifC13History: k operations from the empty cache. Parameters: line
// (bytes per line), lines (capacity), k, bases (aligned addresses in play).
func VerifC13History() {
	lineLen, nlines, k, nbases := vp.N("line"), vp.N("lines"), vp.N("k"), vp.N("bases")
	c := NewLRUCache(lineLen, lineLen*nlines)
	m := &c13model{lineLen: lineLen, cap: nlines}
	for i := 0; i < k; i++ {
		c13op(c, m, i, nbases)
		m.check(c, "state")
	}
	vp.Cover("end")
}

// VerifC13Step: ONE operation (plus one more when k=2) from an arbitrary valid
// state at a real geometry: n resident lines (n = capacity or capacity-1) at
// distinct aligned bases in a fixed scrambled recency order, every byte
// symbolic. Parameters: line, lines, n, k, bases.
func VerifC13Step() {
	lineLen, nlines, n, k, nbases := vp.N("line"), vp.N("lines"), vp.N("n"), vp.N("k"), vp.N("bases")
	c := NewLRUCache(lineLen, lineLen*nlines)
	m := &c13model{lineLen: lineLen, cap: nlines}
	for i := 0; i < n; i++ {
		slot := (i*7 + 3) % nbases // scrambled, distinct while n <= nbases and gcd(7,nbases)=1
		base := int32(slot * lineLen)
		vp.Assume(m.find(base) < 0)
		d, dm := c13data("s"+vp.Itoa(i), lineLen)
		c.lines = append(c.lines, Line{Boundary: [2]AlignedAddress{AlignedAddress(base), AlignedAddress(base) + AlignedAddress(lineLen)}, Data: d})
		m.lines = append(m.lines, c13line{base, dm})
	}
	m.check(c, "pre")
	for i := 0; i < k; i++ {
		c13op(c, m, i, nbases)
		m.check(c, "state")
	}
	vp.Cover("end")
}

// VerifC13SubLine: GetSubCacheLine returns the aligned sub-line of a resident
// bigger line (the L3 -> L1 path of MVP-8) and ignores lines being evicted.
func VerifC13SubLine() {
	lineLen, sub := vp.N("line"), vp.N("sub")
	c := NewLRUCache(lineLen, lineLen*2)
	d, dm := c13data("d", lineLen)
	base := int32(lineLen)
	c.PushLine(AlignedAddress(base), d)
	var addr int32
	if vp.N("symaddr") == 1 {
		addr = vp.I32("addr")
		vp.Assume(addr >= 0 && addr < int32(3*lineLen))
	} else {
		L, S := int32(lineLen), int32(sub)
		addr = []int32{0, L - 1, L, L + 1, L + S - 1, L + S, L + S + 1, 2*L - 1, 2 * L, 3*L - 1}[vp.Choice("corner", 10)]
	}
	a, data, ok := c.GetSubCacheLine([]int32{addr}, int32(sub))
	in := addr >= base && addr < base+int32(lineLen)
	vp.Assert(ok == in, "subline:present-iff-covered")
	if ok && in {
		want := addr - addr%int32(sub)
		vp.Assert(int32(a) == want, "subline:aligned-address")
		vp.Assert(len(data) == sub, "subline:length")
		for i := 0; i < sub && i < len(data); i++ {
			vp.Assert(data[i] == dm[want-base+int32(i)], "subline:bytes")
		}
	}
	vp.Cover("end")
}
