package comp

// C15 (rename table alone): the exported RAT API with short rings (2, 3) so
// that wrap-around happens within short histories. Values carry a tag.

import vp "github.com/teivah/majorana/verifvp"

type c15tu struct {
	tag int32
	val int32
}

func VerifC15RAT() {
	length, k := vp.N("ring"), vp.N("k")
	r := NewRAT[int, c15tu](length)
	hist := map[int][]c15tu{} // writes per key in arrival order
	retained := func(key int) []c15tu {
		h := hist[key]
		if len(h) > length {
			return h[len(h)-length:]
		}
		return h
	}
	for i := 0; i < k; i++ {
		tag := vp.Itoa(i)
		key := vp.Choice("key"+tag, 2)
		switch vp.Choice("op"+tag, 4) {
		case 0:
			t := vp.I32("t" + tag)
			vp.Assume(t > 0 && t < 1<<20)
			u := c15tu{t, vp.I32("v" + tag)}
			r.Write(key, u)
			hist[key] = append(hist[key], u)
		case 1:
			got, ok := r.Read(key)
			h := hist[key]
			vp.Assert(ok == (len(h) > 0), "read:exists")
			if ok && len(h) > 0 {
				vp.Assert(got == h[len(h)-1], "read:newest")
			}
		case 2: // Find the newest retained write with tag <= t
			t := vp.I32("ft" + tag)
			vp.Assume(t > 0 && t < 1<<20)
			got, ok := r.Find(key, func(u c15tu) bool { return u.tag <= t })
			ret := retained(key)
			if ok {
				vp.Assert(got.tag <= t, "find:satisfies-predicate")
				member := false
				for _, u := range ret {
					member = member || got == u
				}
				vp.Assert(member, "find:a-written-value")
			}
			if len(ret) > 0 && vp.Fork(ret[len(ret)-1].tag <= t) {
				vp.Assert(ok && got == ret[len(ret)-1], "find:newest-when-it-qualifies")
			}
		case 3: // FindValues(tag < s) per key: a retained written value that qualifies, never an unwritten slot
			s := vp.I32("s" + tag)
			vp.Assume(s > 0 && s < 1<<20)
			vals := r.FindValues(func(u c15tu) bool { return u.tag < s })
			for key2 := 0; key2 < 2; key2++ {
				got, ok := vals[key2]
				ret := retained(key2)
				anyQualifies := false
				for _, u := range ret {
					if vp.Fork(u.tag < s) {
						anyQualifies = true
					}
				}
				vp.Assert(ok == anyQualifies, "findvalues:present-iff-some-write-qualifies")
				if ok && anyQualifies {
					member := false
					for _, u := range ret {
						member = member || got == u
					}
					vp.Assert(member && got.tag < s, "findvalues:a-qualifying-written-value")
				}
			}
		}
		// Values() is the newest write of every key
		vs := r.Values()
		for key2 := 0; key2 < 2; key2++ {
			h := hist[key2]
			got, ok := vs[key2]
			vp.Assert(ok == (len(h) > 0), "values:exists")
			if ok && len(h) > 0 {
				vp.Assert(got == h[len(h)-1], "values:newest")
			}
		}
	}
	vp.Cover("end")
}
