package comp

// C14 harnesses: bounded histories over the real buses with symbolic payloads,
// checked against a list of undelivered items kept by the harness. Only the
// exported API is used. The checks are the sentences of the property: delivery
// exactly once and in order, no visibility before cycle c+1, capacity under
// the producer contract (Add only while CanAdd), Clean empties, a reverted item
// is delivered next (after what is already visible), nothing is lost (drain).

import vp "github.com/teivah/majorana/verifvp"

type c14item struct {
	val   int32
	avail int
}

type c14model struct {
	items []c14item // undelivered, in delivery order
}

func (m *c14model) visibleOK(n, lastConnect int) bool {
	ok := n <= len(m.items)
	for i := 0; i < n && i < len(m.items); i++ {
		ok = ok && m.items[i].avail <= lastConnect
	}
	return ok
}

func (m *c14model) remove(i int) {
	m.items = append(m.items[:i:i], m.items[i+1:]...)
}

// VerifC14Buffered: job parameters qlen (output capacity), blen (input
// capacity), k (history length), from the empty bus.
func VerifC14Buffered() {
	qlen, blen, k := vp.N("qlen"), vp.N("blen"), vp.N("k")
	b := NewBufferedBus[int32](qlen, blen)
	vp.Assert(b.InLength() == qlen && b.OutLength() == blen, "lengths")
	c14run(b, &c14model{}, qlen, blen, k, 1, 0)
}

// VerifC14BufferedStep: k operations from an ARBITRARY state of the bus: nq
// visible items and nb pending items with symbolic payloads and availability
// stamps in {cycle-1, cycle, cycle+1} (every state a history can reach has this
// shape; deep states need no long history).
func VerifC14BufferedStep() {
	qlen, blen, k, nq, nb := vp.N("qlen"), vp.N("blen"), vp.N("k"), vp.N("nq"), vp.N("nb")
	b := NewBufferedBus[int32](qlen, blen)
	m := &c14model{}
	cycle := 5
	for i := 0; i < nq; i++ {
		x := vp.I32("q" + vp.Itoa(i))
		b.queue = append(b.queue, x)
		m.items = append(m.items, c14item{x, 0})
	}
	for i := 0; i < nb; i++ {
		x := vp.I32("b" + vp.Itoa(i))
		av := cycle - 1 + vp.Choice("av"+vp.Itoa(i), 3)
		b.buffer = append(b.buffer, BufferEntry[int32]{availableFromCycle: av, t: x})
		m.items = append(m.items, c14item{x, av})
	}
	c14run(b, m, qlen, blen, k, cycle, cycle-1)
}

func c14run(b *BufferedBus[int32], m *c14model, qlen, blen, k, cycle, lastConnect int) {
	check := func() int {
		n := b.PendingRead()
		vp.Assert(n >= 0 && n <= qlen, "output-capacity")
		vp.Assert(m.visibleOK(n, lastConnect), "visible-before-c+1-or-unknown-item")
		vp.Assert(len(m.items)-n <= blen, "input-capacity")
		vp.Assert(b.CanGet() == (n > 0), "CanGet")
		vp.Assert(b.IsEmpty() == (len(m.items) == 0), "IsEmpty")
		vp.Assert(b.CanAdd() == (len(m.items)-n < blen), "CanAdd")
		vp.Assert(b.RemainingToAdd() == blen-(len(m.items)-n), "RemainingToAdd")
		return n
	}
	get := func(label string) {
		n := check()
		x, ok := b.Get()
		vp.Assert(ok == (n > 0), label+":exists")
		if ok && n > 0 {
			vp.Assert(x == m.items[0].val, label+":order")
			m.remove(0)
		}
	}
	for i := 0; i < k; i++ {
		n := check()
		switch vp.Choice("op"+vp.Itoa(i), 9) {
		case 0: // producer contract: add only while the bus reports room
			vp.Assume(b.CanAdd())
			x := vp.I32("x" + vp.Itoa(i))
			b.Add(x, cycle)
			m.items = append(m.items, c14item{x, cycle + 1})
		case 1:
			b.Connect(cycle)
			lastConnect = cycle
			n2 := b.PendingRead()
			vp.Assert(n2 >= n, "connect-loses-visible-items")
		case 2:
			get("get")
		case 3:
			p := vp.I32("p" + vp.Itoa(i))
			x, ok := b.Pick(func(v int32) bool { return v == p })
			first := -1
			for j := 0; j < n && j < len(m.items); j++ {
				if first < 0 && vp.Fork(m.items[j].val == p) {
					first = j
				}
			}
			vp.Assert(ok == (first >= 0), "pick:exists")
			if ok && first >= 0 {
				vp.Assert(x == m.items[first].val, "pick:first-match")
				m.remove(first)
			}
		case 4:
			cycle++
		case 5: // the consumer hands an item back: it must be the next one delivered
			vp.Assume(b.CanAdd())
			x := vp.I32("r" + vp.Itoa(i))
			b.Revert(x, cycle)
			rest := append([]c14item{{x, cycle}}, m.items[n:]...)
			m.items = append(m.items[:n:n], rest...)
		case 6: // undo of the last Add
			b.DeleteLast()
			if len(m.items) > n {
				m.items = m.items[:len(m.items)-1]
			}
		case 7:
			b.Clean()
			m.items = nil
			vp.Assert(b.IsEmpty() && b.PendingRead() == 0 && !b.CanGet(), "clean-empties")
			_, ok := b.Get()
			vp.Assert(!ok, "clean-empties")
		case 8:
			p := vp.I32("e" + vp.Itoa(i))
			got := b.Exists(func(v int32) bool { return v == p })
			want := false
			for j := 0; j < n && j < len(m.items); j++ {
				if vp.Fork(m.items[j].val == p) {
					want = true
				}
			}
			vp.Assert(got == want, "exists")
		}
	}
	// drain: everything still on the bus is delivered exactly once, in order
	cycle += 2
	for r := 0; r < 2*(qlen+blen)+2 && len(m.items) > 0; r++ {
		b.Connect(cycle)
		lastConnect = cycle
		for b.CanGet() {
			get("drain")
		}
		cycle++
	}
	check()
	vp.Assert(len(m.items) == 0, "drain:items-lost")
	vp.Assert(b.IsEmpty(), "drain:not-empty")
	vp.Cover("end")
}

// VerifC14Simple: the one-slot bus. A Get is one cycle; an item added between
// Get number g and g+1 is not returned by Get g+1 but by Get g+2.
func VerifC14Simple() {
	k := vp.N("k")
	b := &SimpleBus[int32]{}
	var pend, cur []int32 // model: what was added since the last Get; what the next Get returns
	for i := 0; i < k; i++ {
		vp.Assert(b.CanAdd() == (len(pend) == 0), "CanAdd")
		vp.Assert(b.IsEmpty() == (len(pend) == 0 && len(cur) == 0), "IsEmpty")
		switch vp.Choice("op"+vp.Itoa(i), 4) {
		case 0:
			vp.Assume(b.CanAdd())
			x := vp.I32("x" + vp.Itoa(i))
			b.Add(x)
			pend = []int32{x}
		case 1:
			x, ok := b.Get()
			vp.Assert(ok == (len(cur) == 1), "get:exists")
			if ok && len(cur) == 1 {
				vp.Assert(x == cur[0], "get:order")
			}
			cur, pend = pend, nil
		case 2:
			b.Clean()
			pend, cur = nil, nil
			_, ok := b.Get()
			vp.Assert(!ok && b.IsEmpty(), "clean-empties")
		case 3:
			b.Flush()
			pend, cur = nil, nil
			vp.Assert(b.IsEmpty(), "clean-empties")
		}
	}
	for r := 0; r < 3; r++ {
		x, ok := b.Get()
		vp.Assert(ok == (len(cur) == 1), "drain:exists")
		if ok && len(cur) == 1 {
			vp.Assert(x == cur[0], "drain:order")
		}
		cur, pend = pend, nil
	}
	vp.Assert(b.IsEmpty(), "drain:not-empty")
	vp.Cover("end")
}

// VerifC14Queue: the control-unit queue. Iteration (through its goroutine and
// channel) yields every element exactly once in insertion order, also when the
// consumer removes elements while iterating; IsFull reflects the length.
func VerifC14Queue() {
	k, length := vp.N("k"), vp.N("len")
	q := NewQueue[int32](length)
	var model []int32
	for i := 0; i < k; i++ {
		vp.Assert(q.Length() == len(model), "length")
		vp.Assert(q.IsFull() == (len(model) >= length), "IsFull")
		switch vp.Choice("op"+vp.Itoa(i), 3) {
		case 0:
			vp.Assume(!q.IsFull())
			x := vp.I32("x" + vp.Itoa(i))
			q.Push(x)
			model = append(model, x)
		case 1: // iterate, removing the elements equal to p
			p := vp.I32("p" + vp.Itoa(i))
			j := 0
			var keep []int32
			for e := range q.Iterator() {
				v := q.Value(e)
				vp.Assert(j < len(model), "iter:too-many")
				if j < len(model) {
					vp.Assert(v == model[j], "iter:order")
				}
				if vp.Fork(v == p) {
					q.Remove(e)
				} else {
					keep = append(keep, v)
				}
				j++
			}
			vp.Assert(j == len(model), "iter:count")
			model = keep
		case 2: // iterate and stop after the first element (the channel is buffered for the whole queue)
			for e := range q.Iterator() {
				vp.Assert(len(model) > 0 && q.Value(e) == model[0], "iter:first")
				q.Remove(e)
				model = model[1:]
				break
			}
		}
	}
	vp.Assert(q.Length() == len(model), "length")
	vp.Cover("end")
}

// VerifC14Broadcast: every listener reads every notified item, in order, until
// it commits it; a committed item is not read again.
func VerifC14Broadcast() {
	k, count := vp.N("k"), vp.N("listeners")
	b := NewBroadcast[int32](count)
	model := make([][]int32, count)
	for i := 0; i < k; i++ {
		op := vp.Choice("op"+vp.Itoa(i), 1+2*count)
		switch op {
		case 0:
			x := vp.I32("x" + vp.Itoa(i))
			b.Notify(x)
			for l := range model {
				model[l] = append(model[l], x)
			}
		default:
			c := op - 1
			l, commitFirst := c/2, c%2 == 1
			evs := b.Read(l)
			vp.Assert(len(evs) == len(model[l]), "read:count")
			for j := 0; j < len(evs) && j < len(model[l]); j++ {
				vp.Assert(evs[j].Data == model[l][j], "read:order")
			}
			if commitFirst && len(evs) > 0 && len(model[l]) > 0 {
				evs[0].Commit()
				model[l] = model[l][1:]
			}
		}
	}
	for l := 0; l < count; l++ {
		evs := b.Read(l)
		vp.Assert(len(evs) == len(model[l]), "final:count")
		for j := 0; j < len(evs) && j < len(model[l]); j++ {
			vp.Assert(evs[j].Data == model[l][j], "final:order")
		}
	}
	vp.Cover("end")
}
