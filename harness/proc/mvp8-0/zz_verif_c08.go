package mvp8_0

// VerifHavoc gives the package-level counters arbitrary values (C08: results
// must not depend on what ran earlier in the process).
func VerifHavoc(a, b int) {
	l1WriteBackToMemory, l1WriteBackToL3 = a, b
}
