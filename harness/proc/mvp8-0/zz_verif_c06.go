package mvp8_0

// C06: MSI invariants asserted at EVERY iteration of CPU.Run (through the
// verifHook of the instrumented copy of cpu.go). Identical in mvp7-0, mvp7-1
// and mvp8-0 except for the next level (memory, or the shared L3 in MVP-8).

import (
	"github.com/teivah/majorana/proc/comp"
	vp "github.com/teivah/majorana/verifvp"
)

// VerifEnableC06 switches the per-cycle invariant check on or off.
func VerifEnableC06(on bool) {
	if on {
		verifHook = verifC06Check
	} else {
		verifHook = nil
	}
}

// verifC06Busy: a transfer is in progress for (core, line): a snoop command is
// pending for it, the core's own read/write request holds its lock, or the
// line is the victim of an eviction in progress.
func verifC06Busy(m *CPU, id int, addr comp.AlignedAddress) bool {
	for req := range m.msi.commands {
		if req.id == id && req.alignedAddr == addr {
			return true
		}
	}
	cc := m.cacheControllers[id]
	if _, ok := cc.l1RLockSems[addr]; ok {
		return true
	}
	if _, ok := cc.l1LockSems[addr]; ok {
		return true
	}
	resident := false
	for _, l := range cc.l1d.ExistingLines() {
		if l.Boundary[0] == addr {
			resident = true
		}
	}
	for _, l := range cc.l1d.Lines() {
		if l.Boundary[0] == addr && !resident {
			return true // being evicted
		}
	}
	return false
}

func verifC06Word(d []int8, i int) uint32 {
	return uint32(uint8(d[i])) | uint32(uint8(d[i+1]))<<8 | uint32(uint8(d[i+2]))<<16 | uint32(uint8(d[i+3]))<<24
}

func verifC06Check(m *CPU) {
	vp.Cover("c06:checked")
	// at most one Modified owner per line, and then no Shared copy
	lines := map[comp.AlignedAddress]bool{}
	for e := range m.msi.states {
		lines[e.alignedAddr] = true
	}
	for addr := range lines {
		mod, sh := 0, 0
		for id := range m.cacheControllers {
			switch m.msi.states[msiEntry{id, addr}] {
			case modified:
				mod++
			case shared:
				sh++
			}
		}
		vp.Assert(mod <= 1, "c06:at-most-one-modified")
		vp.Assert(mod == 0 || sh == 0, "c06:modified-excludes-shared")
	}
	for id, cc := range m.cacheControllers {
		seen := map[comp.AlignedAddress]bool{}
		for _, l := range cc.l1d.Lines() {
			base := l.Boundary[0]
			vp.Assert(int32(base)%l1DCacheLineSize == 0 && l.Boundary[1]-base == l1DCacheLineSize && len(l.Data) == l1DCacheLineSize, "c06:line-shape")
			vp.Assert(!seen[base], "c06:duplicate-line")
			seen[base] = true
			st := m.msi.states[msiEntry{id, base}]
			if verifC06Busy(m, id, base) {
				continue
			}
			vp.Assert(st != invalid, "c06:resident-line-without-valid-state")
			if st == shared {
				next := verifC06Next(m, base)
				same := len(next) == len(l.Data)
				for w := 0; same && w+3 < len(l.Data); w += 4 {
					vp.Assert(verifC06Word(l.Data, w) == verifC06Word(next, w), "c06:shared-equals-next-level")
				}
				vp.Assert(same, "c06:shared-equals-next-level")
			}
		}
		for e, st := range m.msi.states {
			if e.id != id || st == invalid || verifC06Busy(m, id, e.alignedAddr) {
				continue
			}
			vp.Assert(seen[e.alignedAddr], "c06:valid-state-without-line")
		}
	}
}

// verifC06Next: the bytes of the line at the next level: the shared L3 when it
// holds the covering line, main memory otherwise.
func verifC06Next(m *CPU, base comp.AlignedAddress) []int8 {
	out := make([]int8, l1DCacheLineSize)
	for _, l := range m.l3.Lines() {
		if base >= l.Boundary[0] && base < l.Boundary[1] {
			off := int(base - l.Boundary[0])
			copy(out, l.Data[off:off+l1DCacheLineSize])
			return out
		}
	}
	for i := range out {
		if int(base)+i < len(m.ctx.Memory) {
			out[i] = m.ctx.Memory[int(base)+i]
		}
	}
	return out
}

