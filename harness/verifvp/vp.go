// Package verifvp is the harness API of /verif (it exists only as an overlay,
// never on disk in /repo). Under the symbolic executor (gosym) every call is
// intercepted: the nondet functions return fresh SMT variables, Assume/Assert
// become solver queries. Natively the same functions read a value table, so
// the very same harness is the replay test for a solver model.
package verifvp

var vals map[string]int64
var params map[string]string
var fails []string
var covers = map[string]int{}

// AssumeViolated is the panic value of a violated assumption in native replay
// (the model does not belong to the harness's input space: not a reproduction).
type AssumeViolated struct{}

func Load(p map[string]string, v map[string]int64) {
	params, vals, fails = p, v, nil
	covers = map[string]int{}
}

func key(name string) string {
	b := []byte("v_" + name)
	for i := 2; i < len(b); i++ {
		c := b[i]
		if !(c >= 'a' && c <= 'z' || c >= 'A' && c <= 'Z' || c >= '0' && c <= '9' || c == '_') {
			b[i] = '_'
		}
	}
	return string(b)
}

// S and N are concrete parameters of the job (variant, skeleton, sizes).
func S(name string) string { return params[name] }
func N(name string) int {
	s := params[name]
	n, neg := 0, false
	for i := 0; i < len(s); i++ {
		if s[i] == '-' {
			neg = true
			continue
		}
		n = n*10 + int(s[i]-'0')
	}
	if neg {
		return -n
	}
	return n
}

func I8(name string) int8     { return int8(vals[key(name)]) }
func U8(name string) uint8    { return uint8(vals[key(name)]) }
func I16(name string) int16   { return int16(vals[key(name)]) }
func I32(name string) int32   { return int32(vals[key(name)]) }
func U32(name string) uint32  { return uint32(vals[key(name)]) }
func I64(name string) int64   { return vals[key(name)] }
func Bool(name string) bool   { return vals[key(name)]&1 == 1 }

// Choice is a small integer in [0,n) the executor forks on.
func Choice(name string, n int) int { return int(vals[key(name)]) }

// Str is a string of exactly n arbitrary bytes.
func Str(name string, n int) string {
	b := make([]byte, n)
	for i := range b {
		b[i] = byte(vals[key(name+"_"+itoa(i))])
	}
	return string(b)
}

func itoa(i int) string {
	if i == 0 {
		return "0"
	}
	var b []byte
	for i > 0 {
		b = append([]byte{byte('0' + i%10)}, b...)
		i /= 10
	}
	return string(b)
}

func Itoa(i int) string { return itoa(i) }

func Assume(c bool) {
	if !c {
		panic(AssumeViolated{})
	}
}

func Assert(c bool, label string) {
	if !c {
		fails = append(fails, label)
	}
}

// Fork returns c; the executor forks here instead of merging the two sides.
func Fork(c bool) bool { return c }

func Cover(label string)     { covers[label]++ }
func Policy(k int)           {}
func Unwind(n int)           {}
func Failures() []string     { return fails }
func Covers() map[string]int { return covers }
