#!/usr/bin/env python3
"""Regenerates MANIFEST.json from the table below (developer tool, not run by checks)."""
import json

ALL = ["C%02d" % i for i in range(1, 17)]
TECH = "bounded symbolic execution of the real Go SSA (gosym) + SMT (z3 qfbv); counterexamples replayed natively"
BASE_NOTE = ("Trusted: go/ssa (x/tools v0.29.0) build of /repo's working tree, gosym's SSA semantics (every sat verdict is replayed "
             "against the native build before it is reported), z3 4.8.12. ")

checks = {
 "C16": dict(
   text="All 2^32 words and all 2^32 byte quadruples are decided by the solver on the real BytesFromLowBits/I32FromBytes (bit loops executed with constant trip counts, diamonds merged to ite terms): no bound is left open, so within the trusted base this is a decision for every input, not a sample.",
   design="§5 C16", note=BASE_NOTE + "No assumption on inputs."),

 "C01": dict(
   text="The real NewCPU(...).Run of each of the twelve variants is executed symbolically on every program skeleton of the general family (ALU/immediate mixes, loops with concrete trip counts, call/return, sub-word traffic, the repository's own programs at size 3 with symbolic data) plus fixed samples of the dependence, memory-dependence, shadow, tail and cache families, with all 31 registers and every memory byte as SMT variables; the final registers and memory words are compared by the solver with a sequential reference interpreter, for all initial states of a skeleton at once.",
   design="§4, §5", note=BASE_NOTE + "Programs are the generated skeleton families of DESIGN §4 (concrete text and addresses, all data symbolic) on 13 (quick) / 29 (thorough) configurations; debug=false; ascending map-order policy; reference interpreter harness/verifm/ref.go; genuine defects of the unchanged tree are recorded per (configuration, skeleton, failure class, register/word) in known_findings.jsonl (DESIGN §6). "),
 "C03": dict(
   text="Branch-shadow family: 8 branch/jump kinds (always taken, data-dependent with both outcomes explored, slow-resolving behind a cache-missing load, j, jal) x 11 shadow bodies (register writes, sw/sb, lw in and out of bounds, jal, div by zero, second branch) x landing code that reads the shadow's targets, on MVP-4..8; the reference never executes the shadow, so any trace (register, memory, error, panic) is a failed assertion decided for all data.",
   design="§4, §5", note=BASE_NOTE + "Programs are the generated skeleton families of DESIGN §4 (concrete text and addresses, all data symbolic) on 13 (quick) / 29 (thorough) configurations; debug=false; ascending map-order policy; reference interpreter harness/verifm/ref.go; genuine defects of the unchanged tree are recorded per (configuration, skeleton, failure class, register/word) in known_findings.jsonl (DESIGN §6). "),
 "C04": dict(
   text="Every dependence pattern (up to register renaming) on 2 instructions from {add, lw miss/hit, sw store-data} over three registers, plus a fixed sample of 40 (600) 3-instruction patterns that also contain data-dependent branches, on all pipelined configurations; final registers and memory compared with the sequential reference for all operand values.",
   design="§4, §5", note=BASE_NOTE + "Programs are the generated skeleton families of DESIGN §4 (concrete text and addresses, all data symbolic) on 13 (quick) / 29 (thorough) configurations; debug=false; ascending map-order policy; reference interpreter harness/verifm/ref.go; genuine defects of the unchanged tree are recorded per (configuration, skeleton, failure class, register/word) in known_findings.jsonl (DESIGN §6). "),
 "C05": dict(
   text="Aligned byte/half/word load/store sequences: first-touch offsets in two lines, overlapping fills of the first-miss-keyed lines of MVP-3..6, write-miss/read-neighbour, dirty data at exit, and eviction depth (17-20 distinct 64-byte lines over a 1 KB cache; 33-34 128-byte lines for MVP-8) with a dirty victim that is reloaded; every loaded value (through its register) and the whole final memory are compared with a flat-memory reference for all data.",
   design="§4, §5", note=BASE_NOTE + "Programs are the generated skeleton families of DESIGN §4 (concrete text and addresses, all data symbolic) on 13 (quick) / 29 (thorough) configurations; debug=false; ascending map-order policy; reference interpreter harness/verifm/ref.go; genuine defects of the unchanged tree are recorded per (configuration, skeleton, failure class, register/word) in known_findings.jsonl (DESIGN §6). "),
 "C06": dict(
   text="The MSI invariants of the statement are asserted at EVERY iteration of CPU.Run of MVP-7.0/7.1/8 (per-iteration hook in the regenerated instrumented copy of cpu.go) on load/store skeletons with 1-4 cores: single Modified owner excluding Shared copies; a Shared L1 line byte-identical to memory/L3 (solver-decided for all data); L1 residency iff state != Invalid outside transfers in progress; no duplicate, aligned, full-size lines; no protocol panic (negative lock counters, invalid state).",
   design="§5 C06", note=BASE_NOTE + "Programs are the generated skeleton families of DESIGN §4 (concrete text and addresses, all data symbolic) on 13 (quick) / 29 (thorough) configurations; debug=false; ascending map-order policy; reference interpreter harness/verifm/ref.go; genuine defects of the unchanged tree are recorded per (configuration, skeleton, failure class, register/word) in known_findings.jsonl (DESIGN §6). " + "Schedules are those the pipeline induces on the skeletons; the bounded-exhaustive cache-controller rig of the first design was not built."),
 "C07": dict(
   text="Termination obligations on every machine-level run of the error programs, the general family and fixed samples of every other family on all configurations: no Go panic, Run's loop iterations and the returned cycles within 4*(executed+2)*309 (a tick in the instrumented Run loops aborts the run, so a hang is a finding instead of a blocked checker), ISA-defined errors (division by zero, undefined label) returned as an error value.",
   design="§4, §5", note=BASE_NOTE + "Programs are the generated skeleton families of DESIGN §4 (concrete text and addresses, all data symbolic) on 13 (quick) / 29 (thorough) configurations; debug=false; ascending map-order policy; reference interpreter harness/verifm/ref.go; genuine defects of the unchanged tree are recorded per (configuration, skeleton, failure class, register/word) in known_findings.jsonl (DESIGN §6). "),
 "C08": dict(
   text="Relational symbolic runs on one input that must agree on cycles, every register and every memory word: (D1) the same machine under two Go-map iteration-order policies of the executor (ascending vs descending / insertion / reverse), (D2) two fresh machines back to back with every written package-level variable symbolic, (D3) one parsed Application run on machine A then on a fresh machine B versus B on a freshly parsed program.",
   design="§5 C08", note=BASE_NOTE + "Programs are the generated skeleton families of DESIGN §4 (concrete text and addresses, all data symbolic) on 13 (quick) / 29 (thorough) configurations; debug=false; ascending map-order policy; reference interpreter harness/verifm/ref.go; genuine defects of the unchanged tree are recorded per (configuration, skeleton, failure class, register/word) in known_findings.jsonl (DESIGN §6). " + "Goroutines run cooperatively in the engine (no preemption); only four order policies; other processes are covered only by the absence of unmodelled external calls."),
 "C09": dict(
   text="Tail family: 3 bodies x 10 tails (lw miss/hit, sw miss/hit, lw+use, sw+sw, lb+sb, mul, ALU chain, li) placed immediately before ret and before the fall-through end, on MVP-4..8; registers and memory compared with the sequential reference for all data.",
   design="§4, §5", note=BASE_NOTE + "Programs are the generated skeleton families of DESIGN §4 (concrete text and addresses, all data symbolic) on 13 (quick) / 29 (thorough) configurations; debug=false; ascending map-order policy; reference interpreter harness/verifm/ref.go; genuine defects of the unchanged tree are recorded per (configuration, skeleton, failure class, register/word) in known_findings.jsonl (DESIGN §6). "),
 "C10": dict(
   text="Store->load, load->store and store->store pairs on the same byte/half/word/line at distance 1..2 (1..4), cold and warm lines, independent address registers holding the same address, partial overlaps, chains, on MVP-4..8; loaded values (through registers) and final memory compared with the sequential reference for all data.",
   design="§4, §5", note=BASE_NOTE + "Programs are the generated skeleton families of DESIGN §4 (concrete text and addresses, all data symbolic) on 13 (quick) / 29 (thorough) configurations; debug=false; ascending map-order policy; reference interpreter harness/verifm/ref.go; genuine defects of the unchanged tree are recorded per (configuration, skeleton, failure class, register/word) in known_findings.jsonl (DESIGN §6). "),
 "C12": dict(
   text="On every machine-level run of the general, tail, memory-dependence and cache samples: MVP-1's returned count equals the analytic latency sum over the reference trace (fetch 309 + decode 1 + load 309 + execute 1|50 + write-back 1|309, none for branches and the final ret), MVP-2 is not slower than that sum, every variant returns a positive count that is at least executed/width; per program path the count is a concrete number in the symbolic run (value independence is observed as the absence of extra engine paths).",
   design="§4, §5", note=BASE_NOTE + "Programs are the generated skeleton families of DESIGN §4 (concrete text and addresses, all data symbolic) on 13 (quick) / 29 (thorough) configurations; debug=false; ascending map-order policy; reference interpreter harness/verifm/ref.go; genuine defects of the unchanged tree are recorded per (configuration, skeleton, failure class, register/word) in known_findings.jsonl (DESIGN §6). " + "The two-run value-independence harness of the first design was not built."),
 "C11": dict(
   text="risc.Parse is executed on strings whose bytes are SMT variables: totality for '<mnemonic> ' + every length 0..n of arbitrary ASCII bytes for all 45 mnemonics, mnemonic-free lines, load/store operand prefixes and two-line inputs (no panic; an error means no program; accepted text has as many instructions as instruction lines), the operand parsers alone, and 2-3 line programs whose indentation, mnemonic case, separators, comments, signs and decimal digits are symbolic, with decoded registers/immediates/label addresses probed through the instruction API. Positions of separators are enumerated by solver-decided forks, not sampled.",
   design="§5 C11", note=BASE_NOTE + "Bytes < 0x80; engine models of strings.TrimSpace/Split/Index/IndexRune/ToLower and strconv.ParseInt(base 10) over byte sequences (trusted, DESIGN §2.4); bounded input lengths."),
 "C13": dict(
   text="Bounded-exhaustive operation histories from the empty cache (the executor forks on every operation choice; probe addresses and all data bytes are SMT variables) plus single/double operations from an ARBITRARY valid state, also at the 64B/1KB and 128B/4KB geometries the variants use, on the real comp.LRUCache and the generic cache.LRUCache; every returned byte/line/victim is compared by the solver with an MRU-first list kept by the harness.",
   design="§5 C13", note=BASE_NOTE + "Assumes callers never insert a line overlapping a resident one and Write stays inside one resident line; histories longer than k and unaligned bases are outside."),
 "C14": dict(
   text="Bounded-exhaustive histories of add/connect/get/pick/cycle++/revert/delete-last/clean/exists (from the empty bus, and k operations from an arbitrary bus state with symbolic payloads and availability stamps) on the real BufferedBus, plus SimpleBus, Queue (with its goroutine/channel iterator interpreted) and Broadcast; delivery order, exactly-once, visibility not before c+1, capacity, clean and revert are assertions over symbolic payloads.",
   design="§5 C14", note=BASE_NOTE + "Producer contract (Add/Revert only while CanAdd); a reverted item is next after the already visible ones (weakest reading; Revert/DeleteLast have no caller); capacities <= 3 (quick) / 4 (thorough)."),
 "C15": dict(
   text="Bounded-exhaustive histories of tagged write / tagged read / commit / rollback with symbolic values AND symbolic tags (the executor forks on every tag comparison) on the real Context transaction map and rename table and on the bare comp.RAT with rings 2 and 3 (wrap-around inside short histories), against a list of tagged writes.",
   design="§5 C15", note=BASE_NOTE + "Tags positive and distinct per register; strong clauses only while pending writes per register <= slots; a tagged read may return the committed value or any pending write with tag <= t. Known finding (recorded, not repaired): out-of-program-order arrival of writes to one register in the rename table (last-written-wins)."),
 "C02": dict(
   text="For each of the 45 mnemonics and each register-name pattern the real Run/ReadRegisters/WriteRegisters/MemoryRead/MemoryWrite are executed symbolically with all register values, immediates, offsets, pc, branch target and loaded bytes as SMT variables and compared with the RV32IM definition written in the harness; the solver decides every assertion for all 2^32..2^160 operand combinations of that pattern (both tiers: all 5^k register-name tuples; the thorough tier re-asks every obligation of a second solver build, z3 5.1.0).",
   design="§5 C02", note=BASE_NOTE + "Assumes shift immediates in 0..31, pc/targets multiples of 4 in [0,2^20), code uniform in register names beyond {zero,ra,t0,t1,t2}; division by zero must be an error value."),
}

not_yet = {p: "check not built yet in this session (work in progress; see DESIGN.md §5)" for p in ALL if p not in checks}

m = {
 "version": 1,
 "setup_cmd": "cd /verif/engine && GOFLAGS=-mod=mod GOPROXY=off GOSUMDB=off GOTOOLCHAIN=local go build -o /verif/bin/vcheck ./cmd/vcheck",
 "hooks": {
   "guard": "verif",
   "enable": "none: no hook is committed in /repo; harnesses under /verif/harness and instrumented copies of proc/mvp*/cpu.go are injected with go/packages Overlay (engine) and `go test -overlay` (native replay)",
   "baseline_off_cmd": "cd /repo && GOFLAGS=-mod=mod go test -vet=off -count=1 -timeout 25m ./...",
   "source_commits": [],
   "add_only": True,
 },
 "engines": [{"name": "gosym", "path": "/verif/engine", "serves_properties": sorted(checks),
              "kind_free_text": "symbolic executor for go/ssa with concrete heap and SMT bit-vector scalars, run-time path merging, forking by re-execution, z3 back end, native replay"}],
 "checks": [],
 "not_applicable": [{"property_id": p, "reason": r} for p, r in sorted(not_yet.items())],
 "notes": "See DESIGN.md. Known findings (genuine defects of the unchanged tree that are recorded rather than repaired) are in known_findings.jsonl.",
}
for p in sorted(checks):
    c = checks[p]
    m["checks"].append({
      "property_id": p,
      "quick_cmd": "./run.sh %s quick" % p,
      "thorough_cmd": "./run.sh %s thorough" % p,
      "evidence_file": "/verif/evidence/%s.json" % p,
      "replay_cmd_template": "bin/vcheck replay {path}",
      "engine": "gosym",
      "level_claimed": {"category": "model_checking", "text": c["text"], "design_ref": c["design"]},
      "level_note": c["note"],
      "technique": TECH,
    })
json.dump(m, open("/verif/MANIFEST.json", "w"), indent=1)
print("wrote MANIFEST.json with", len(m["checks"]), "checks")
