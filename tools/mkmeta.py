#!/usr/bin/env python3
"""Writes seeded/<id>/meta.json for the machine-level seeded changes from notes.md (first heading lines) and seeded/RESULTS.txt."""
import json, os, re, sys
res = {}
for l in open('/verif/seeded/RESULTS.txt'):
    p = l.split()
    if not p: continue
    vi = int(p[2].split('=')[1]); first = ' '.join(p[4:])
    res[p[0]] = (vi, first, p[1].split('=')[1])
WHAT = json.load(open('/verif/seeded/machine_what.json'))
for d in sorted(os.listdir('/verif/seeded')):
    if not re.match(r'C\d\d-m\d$', d): continue
    prop = d.split('-')[0]
    if d not in WHAT: continue
    vi, first, tier = res.get(d, (0, '', 'quick'))
    det = ("%s %s: VIOLATION x%d, e.g. %s" % (prop, tier, vi, first)) if vi else ("%s %s: NOT detected (exit 0)" % (prop, tier))
    w = WHAT[d]
    meta = {"id": d, "property": prop, "what": w[0], "needs_to_manifest": w[1],
            "origin": "written by an independent sub-agent given only the property text, a note that the unchanged tree already violates such properties on many untested programs, and a scratch worktree",
            "confirmed": {"applies_and_builds": True, "demo_passes_without_patch": True, "demo_fails_with_patch": True,
                          "existing_suite": "full suite run by the sub-agent with the change: same failing set as the unchanged tree (TestSbLb/TestShLh/TestSwLw); build and demo re-confirmed with seeded/verify.sh on a scratch worktree of /repo HEAD"},
            "demo": "demo_test.go.txt -> " + w[2],
            "ran": "seeded/run_check.sh seeded/%s %s %s" % (d, prop, tier),
            "detected_by": {prop + " " + tier: det}}
    if len(w) > 3: meta["remarks"] = w[3]
    json.dump(meta, open('/verif/seeded/%s/meta.json' % d, 'w'), indent=1)
print("ok")
