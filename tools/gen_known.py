#!/usr/bin/env python3
"""Developer tool (never run by a registered command): runs `vcheck run -prop P -tier thorough -propose-known`,
and appends a status=known line to known_findings.jsonl for every reproduced violation whose key is not listed yet.
Each proposed line is a violation that was replayed natively against the real build; the `what` text is the
root-cause class from DESIGN.md §6 chosen by signature."""
import json, subprocess, sys, re

def what(prop, key):
    parts = key.split('|')
    cfg, sk, kind, label = parts[1], parts[2], parts[3], parts[4]
    fam = sk.split(':')[0]
    v = cfg.replace('mvp', '').split('@')[0]
    wide3 = cfg.endswith('3x3') or cfg.endswith('3c') or cfg.endswith('4x4') or cfg.endswith('4c')
    if kind == 'hang':
        if fam in ('st-ld', 'ld-st', 'st-st', 'chain', 'cache', 'gen', 'repo', 'evict') and v.startswith('6'):
            return "D-PENDING-FETCH: MVP-6.x never completes when a store and a load of one line are in flight together (the pending L3 fetch registered by doesExecutionMemoryChangesExistsInL3 is never removed); cycle budget exceeded"
        return "D-HANG: run does not end within 4*(executed+2)*309 cycles"
    if kind == 'panic':
        if 'write is negative' in label or 'Sem' in label or 'semaphore' in label:
            return "D-FLUSH-LOCK: a store in flight when the pipeline is flushed leaves the MSI line lock inconsistent (cc.flush deletes from the wrong map): 'write is negative' panic"
        if 'index out of range' in label or 'slice bounds' in label:
            return "D-SPEC-ADDR: a speculatively executed (or wrongly forwarded) memory access uses an out-of-range address and indexes Context.Memory without a bounds check: Go panic"
        return "D-PANIC: Go panic inside Run: " + label[:80]
    if label == 'run-error':
        return "D-SPEC-ERROR: an instruction that is never executed architecturally (wrong path) makes Run return an error"
    if label == 'error-reported':
        return "D-ERROR-LOST: an ISA-defined error (division by zero / undefined label) reached by sequential execution is not reported by this variant"
    if label == 'cycle-bound':
        return "D-CYCLES: returned cycle count / loop iterations exceed 4*(executed+2)*309"
    if fam == 'tail' or prop == 'C09':
        if v in ('4', '5'):
            return "D-RET-DRAIN-45: MVP-4/5 leave the loop at ret while a store is still on the write bus (the second of two stores before ret is lost)"
        return "D-EXIT-INFLIGHT: the run ends (ret / end of program) while a cache-missing load or a queued store older than the exit point is still in flight; its result is lost"
    if fam in ('st-ld', 'ld-st', 'st-st', 'chain') or prop == 'C10':
        if v in ('4', '5'):
            return "D-RET-DRAIN-45: MVP-4/5 leave the loop at ret while a store is still on the write bus"
        return "D-MEM-ORDER: no memory-dependence tracking between in-flight loads and stores on the multi-issue variants (a load does not see an older store to the same bytes / a younger store overtakes an older access)"
    if fam == 'shadow':
        if label == 'reg:s6':
            return "D-AFTER-RET: instructions fetched after an executed ret still write back (the li after the fall-through ret commits)"
        if wide3:
            return "D-WIDE: 3- and 4-unit configurations: landing code after the branch reads a stale register/loaded value (WAR/RAW across three units); shadow-independent"
        return "D-SHADOW: wrong-path instruction effect visible after the branch resolved"
    if fam in ('dep2', 'dep3'):
        return "D-WAW-RENAME: two in-flight writers of one register (WAW, or a slow load overtaken by a younger writer) complete out of program order; the rename table/commit keeps the last arrival (see C15 known finding); on 3-unit configurations also WAR"
    if fam in ('cache', 'evict'):
        return "D-CACHE: cache hierarchy not transparent for this access pattern (overlapping first-miss-keyed lines in MVP-3..6, dirty victim written back with the new line's address in pushLineToL1D, store lost behind a line fill)"
    return "D-OTHER: final architectural state differs from the sequential reference on this skeleton (native replay confirmed); root cause not isolated"

def main():
    props = sys.argv[1:]
    known = set()
    for l in open('/verif/known_findings.jsonl'):
        l = l.strip()
        if l and not l.startswith('#'):
            k = json.loads(l)
            if k['status'] == 'known':
                known.add(k['key'])
    out = open('/verif/known_findings.jsonl', 'a')
    for p in props:
        for tier in ('thorough',):
            r = subprocess.run(['/verif/bin/vcheck', 'run', '-prop', p, '-tier', tier, '-propose-known'], capture_output=True, text=True)
            n = 0
            for line in r.stdout.splitlines():
                if line.startswith('PROPOSE '):
                    k = json.loads(line[8:])
                    if k['key'] in known:
                        continue
                    known.add(k['key'])
                    unconf = k['what'] == 'UNCONFIRMED-AT-RECORDING'
                    k['what'] = what(p, k['key'])
                    if unconf:
                        k['what'] = 'ORDER-DEPENDENT (the engine finds it under its fixed map-iteration policy; natively it shows only under some Go map iteration orders and did not show in 8 attempts when recorded; see C08): ' + k['what']
                    out.write(json.dumps(k) + '\n')
                    n += 1
            last = [l for l in r.stdout.splitlines() if l.startswith(p + ' ')]
            print(p, tier, 'new known:', n, '|', last[-1][:220] if last else r.stdout[-300:])
            out.flush()

main()
