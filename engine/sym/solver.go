package sym

import (
	"bufio"
	"fmt"
	"io"
	"os"
	"os/exec"
	"strconv"
	"strings"
	"time"
)

type Result int

const (
	Unsat Result = iota
	Sat
	Unknown
)

func (r Result) String() string { return [...]string{"unsat", "sat", "unknown"}[r] }

// Solver wraps one long-lived SMT-LIB2 process. Level-0 assertions make up the
// path condition of the current path; queries are wrapped in push/pop.
type Solver struct {
	Name    string
	cmd     *exec.Cmd
	in      io.WriteCloser
	out     *bufio.Reader
	base    map[int]bool // term ids defined at level 0
	tmp     map[int]bool // defined inside the current push
	inPush  bool
	Queries int
	Time    time.Duration
	Log     io.Writer
	Errors  int

	TimeoutMs int
	Defs      int // definitions sent since the process started
}

func NewSolver(kind string) (*Solver, error) { return NewSolverT(kind, 0) }

// NewSolverT starts a solver with a per-query time limit in seconds (0: none).
func NewSolverT(kind string, timeoutSec int) (*Solver, error) {
	var cmd *exec.Cmd
	switch kind {
	case "z3", "z3-new":
		args := []string{"-in", "-smt2"}
		if timeoutSec > 0 {
			args = append(args, "-t:"+strconv.Itoa(timeoutSec*1000), "-memory:6000")
		}
		cmd = exec.Command(kind, args...)
	case "cvc5":
		cmd = exec.Command("cvc5", "--incremental", "--lang", "smt2", "--produce-models")
	default:
		return nil, fmt.Errorf("unknown solver %q", kind)
	}
	in, err := cmd.StdinPipe()
	if err != nil {
		return nil, err
	}
	outp, err := cmd.StdoutPipe()
	if err != nil {
		return nil, err
	}
	cmd.Stderr = nil
	if err := cmd.Start(); err != nil {
		return nil, err
	}
	s := &Solver{Name: kind, cmd: cmd, in: in, out: bufio.NewReaderSize(outp, 1<<16), TimeoutMs: timeoutSec * 1000}
	if lp := os.Getenv("VERIF_SMTLOG"); lp != "" {
		if f, err := os.OpenFile(lp+"."+strconv.Itoa(cmd.Process.Pid), os.O_CREATE|os.O_WRONLY|os.O_TRUNC, 0o644); err == nil {
			s.Log = f
		}
	}
	s.send("(set-option :produce-models true)")
	if kind == "cvc5" {
		s.send("(set-logic QF_BV)")
	}
	s.Reset()
	return s, nil
}

func (s *Solver) Close() {
	if s.cmd != nil {
		s.in.Close()
		s.cmd.Process.Kill()
		s.cmd.Wait()
	}
}

func (s *Solver) send(line string) {
	if s.Log != nil {
		fmt.Fprintln(s.Log, line)
	}
	io.WriteString(s.in, line)
	io.WriteString(s.in, "\n")
}

// HardReset clears the whole solver state between jobs.
func (s *Solver) HardReset() {
	s.send("(reset)")
	s.send("(set-option :produce-models true)")
	s.base = nil
	s.Reset()
}

// Reset drops the path condition and all definitions.
func (s *Solver) Reset() {
	if s.base != nil {
		s.send("(pop 1)")
	}
	s.send("(push 1)")
	s.base = map[int]bool{}
	s.tmp = nil
	s.inPush = false
}

// NameOf is the name under which t appears in models returned by Check.
func NameOf(t *Term) string {
	if t.Op == OpVar {
		return t.Name
	}
	return "t!" + strconv.Itoa(t.ID)
}

func (s *Solver) defined(id int) bool { return s.base[id] || (s.tmp != nil && s.tmp[id]) }

func (s *Solver) mark(id int) {
	if s.inPush {
		s.tmp[id] = true
	} else {
		s.base[id] = true
	}
}

// define emits declarations/definitions for every node of t not yet defined
// and returns the name to use for t.
func (s *Solver) define(t *Term) string {
	if t.Op == OpConst {
		return t.String()
	}
	if t.Op == OpVar {
		if !s.defined(t.ID) {
			s.send(fmt.Sprintf("(declare-const %s %s)", t.Name, sortOf(t)))
			s.mark(t.ID)
		}
		return t.Name
	}
	name := "t!" + strconv.Itoa(t.ID)
	if s.defined(t.ID) {
		return name
	}
	args := make([]string, len(t.Args))
	for i, a := range t.Args {
		args[i] = s.define(a)
	}
	var body string
	switch t.Op {
	case OpExtract:
		body = fmt.Sprintf("((_ extract %d %d) %s)", t.P1, t.P2, args[0])
	case OpZExt:
		body = fmt.Sprintf("((_ zero_extend %d) %s)", t.P1, args[0])
	case OpSExt:
		body = fmt.Sprintf("((_ sign_extend %d) %s)", t.P1, args[0])
	default:
		body = "(" + opNames[t.Op] + " " + strings.Join(args, " ") + ")"
	}
	s.Defs++
	s.send(fmt.Sprintf("(define-fun %s () %s %s)", name, sortOf(t), body))
	s.mark(t.ID)
	return name
}

// Assert adds t to the path condition (level 0).
func (s *Solver) Assert(t *Term) {
	if s.inPush {
		panic("sym: Assert inside query")
	}
	n := s.define(t)
	s.send("(assert " + n + ")")
}

// Check asks whether PC ∧ extra... is satisfiable. If wantModel and sat, the
// values of the given variables are returned.
func (s *Solver) Check(extra []*Term, vars []*Term) (Result, map[string]uint64) {
	start := time.Now()
	defer func() { s.Time += time.Since(start); s.Queries++ }()
	s.send("(push 1)")
	s.inPush = true
	s.tmp = map[int]bool{}
	for _, e := range extra {
		n := s.define(e)
		s.send("(assert " + n + ")")
	}
	var names []string
	for _, v := range vars {
		names = append(names, s.define(v))
	}
	if strings.HasPrefix(s.Name, "z3") {
		if s.TimeoutMs > 0 {
			s.send("(check-sat-using (try-for qfbv " + strconv.Itoa(s.TimeoutMs) + "))")
		} else {
			s.send("(check-sat-using qfbv)")
		}
	} else {
		s.send("(check-sat)")
	}
	res := s.readResult()
	var model map[string]uint64
	if res == Sat && len(names) > 0 {
		s.send("(get-value (" + strings.Join(names, " ") + "))")
		model = s.readModel()
	}
	s.send("(pop 1)")
	s.inPush = false
	s.tmp = nil
	return res, model
}

func (s *Solver) readLine() string {
	line, err := s.out.ReadString('\n')
	if err != nil {
		return "(error \"solver died: " + err.Error() + "\")"
	}
	return strings.TrimSpace(line)
}

func (s *Solver) readResult() Result {
	for {
		l := s.readLine()
		switch {
		case l == "sat":
			return Sat
		case l == "unsat":
			return Unsat
		case l == "unknown" || l == "timeout":
			return Unknown
		case strings.HasPrefix(l, "(error"):
			s.Errors++
			if strings.Contains(l, "solver died") {
				return Unknown
			}
			// keep reading: the verdict line still follows, but it is tainted
			for {
				l2 := s.readLine()
				if l2 == "sat" || l2 == "unsat" || l2 == "unknown" {
					return Unknown
				}
				if strings.Contains(l2, "solver died") {
					return Unknown
				}
			}
		case l == "":
			continue
		}
	}
}

// readModel parses ((name value) ...), possibly spread over several lines.
func (s *Solver) readModel() map[string]uint64 {
	var sb strings.Builder
	depth := 0
	started := false
	for {
		l := s.readLine()
		sb.WriteString(l)
		sb.WriteString(" ")
		for _, c := range l {
			if c == '(' {
				depth++
				started = true
			} else if c == ')' {
				depth--
			}
		}
		if started && depth <= 0 {
			break
		}
		if strings.HasPrefix(l, "(error") {
			s.Errors++
			return nil
		}
	}
	txt := sb.String()
	m := map[string]uint64{}
	toks := strings.Fields(strings.NewReplacer("(", " ", ")", " ").Replace(txt))
	for i := 0; i+1 < len(toks); i += 2 {
		name, val := toks[i], toks[i+1]
		switch {
		case val == "true":
			m[name] = 1
		case val == "false":
			m[name] = 0
		case strings.HasPrefix(val, "#x"):
			v, _ := strconv.ParseUint(val[2:], 16, 64)
			m[name] = v
		case strings.HasPrefix(val, "#b"):
			v, _ := strconv.ParseUint(val[2:], 2, 64)
			m[name] = v
		}
	}
	return m
}
