package sym

import (
	"math/rand"
	"testing"
)

// pair holds the same expression built in the raw and in the canonicalising store.
type pair struct{ r, c *Term }

func TestCanonAgainstRaw(t *testing.T) {
	rng := rand.New(rand.NewSource(12345))
	for round := 0; round < 6000; round++ {
		raw := NewStore()
		raw.Raw = true
		can := NewStore()
		names := []string{"a", "b", "c", "d"}
		var pool []pair
		for _, n := range names {
			pool = append(pool, pair{raw.Var(n+"8", 8), can.Var(n+"8", 8)})
			pool = append(pool, pair{raw.Var(n+"32", 32), can.Var(n+"32", 32)})
		}
		var bools []pair
		pickW := func(w int) (pair, bool) {
			var c []pair
			for _, p := range pool {
				if p.r.W == w {
					c = append(c, p)
				}
			}
			if len(c) == 0 {
				return pair{}, false
			}
			return c[rng.Intn(len(c))], true
		}
		konst := func(w int) pair {
			var v uint64
			switch rng.Intn(5) {
			case 0:
				v = 0
			case 1:
				v = uint64(1) << uint(rng.Intn(w))
			case 2:
				lo := rng.Intn(w)
				hi := lo + rng.Intn(w-lo)
				v = (mask(hi - lo + 1)) << uint(lo)
			case 3:
				v = mask(w)
			default:
				v = rng.Uint64()
			}
			return pair{raw.BV(w, v), can.BV(w, v)}
		}
		for step := 0; step < 40; step++ {
			w := []int{1, 8, 16, 32}[rng.Intn(4)]
			x, ok := pickW(w)
			if !ok {
				// make one by extract from a wider term
				src := pool[rng.Intn(len(pool))]
				if src.r.W < w {
					x = pair{raw.ZExt(src.r, w), can.ZExt(src.c, w)}
				} else {
					lo := rng.Intn(src.r.W - w + 1)
					x = pair{raw.Extract(src.r, lo+w-1, lo), can.Extract(src.c, lo+w-1, lo)}
				}
				pool = append(pool, x)
				continue
			}
			y, _ := pickW(w)
			if rng.Intn(3) == 0 {
				y = konst(w)
			}
			var n pair
			switch rng.Intn(16) {
			case 0:
				n = pair{raw.Bin(OpBAnd, x.r, y.r), can.Bin(OpBAnd, x.c, y.c)}
			case 1:
				n = pair{raw.Bin(OpBOr, x.r, y.r), can.Bin(OpBOr, x.c, y.c)}
			case 2:
				n = pair{raw.Bin(OpBXor, x.r, y.r), can.Bin(OpBXor, x.c, y.c)}
			case 3:
				n = pair{raw.Bin(OpAdd, x.r, y.r), can.Bin(OpAdd, x.c, y.c)}
			case 4:
				k := uint64(rng.Intn(w + 2))
				n = pair{raw.Bin(OpShl, x.r, raw.BV(w, k)), can.Bin(OpShl, x.c, can.BV(w, k))}
			case 5:
				k := uint64(rng.Intn(w + 2))
				n = pair{raw.Bin(OpLShr, x.r, raw.BV(w, k)), can.Bin(OpLShr, x.c, can.BV(w, k))}
			case 6:
				k := uint64(rng.Intn(w + 2))
				n = pair{raw.Bin(OpAShr, x.r, raw.BV(w, k)), can.Bin(OpAShr, x.c, can.BV(w, k))}
			case 7:
				lo := rng.Intn(w)
				hi := lo + rng.Intn(w-lo)
				n = pair{raw.Extract(x.r, hi, lo), can.Extract(x.c, hi, lo)}
			case 8:
				if x.r.W+y.r.W <= 64 {
					n = pair{raw.Concat(x.r, y.r), can.Concat(x.c, y.c)}
				} else {
					continue
				}
			case 9:
				to := w + rng.Intn(65-w)
				if rng.Intn(2) == 0 {
					n = pair{raw.ZExt(x.r, to), can.ZExt(x.c, to)}
				} else {
					n = pair{raw.SExt(x.r, to), can.SExt(x.c, to)}
				}
			case 10:
				b := pair{raw.Eq(x.r, y.r), can.Eq(x.c, y.c)}
				bools = append(bools, b)
				continue
			case 11:
				if len(bools) == 0 {
					continue
				}
				c := bools[rng.Intn(len(bools))]
				if rng.Intn(2) == 0 {
					x, y = konst(w), konst(w)
				}
				n = pair{raw.Ite(c.r, x.r, y.r), can.Ite(c.c, x.c, y.c)}
			case 12:
				n = pair{raw.BNot(x.r), can.BNot(x.c)}
			case 13:
				b := pair{raw.Cmp(OpULt, x.r, y.r), can.Cmp(OpULt, x.c, y.c)}
				bools = append(bools, b)
				if len(bools) > 1 {
					o := bools[rng.Intn(len(bools))]
					bools = append(bools, pair{raw.Not(raw.And(b.r, o.r)), can.Not(can.And(b.c, o.c))})
				}
				continue
			case 14:
				n = pair{raw.Bin(OpSub, x.r, y.r), can.Bin(OpSub, x.c, y.c)}
			default:
				n = pair{raw.Bin(OpMul, x.r, y.r), can.Bin(OpMul, x.c, y.c)}
			}
			pool = append(pool, n)
		}
		for trial := 0; trial < 6; trial++ {
			m := map[string]uint64{}
			for _, n := range names {
				m[n+"8"] = rng.Uint64()
				m[n+"32"] = rng.Uint64()
				if rng.Intn(3) == 0 {
					m[n+"8"] = uint64(rng.Intn(3))
					m[n+"32"] = uint64(1) << uint(rng.Intn(32))
				}
			}
			mr, mc := map[int]uint64{}, map[int]uint64{}
			for _, p := range pool {
				if p.r.W != p.c.W {
					t.Fatalf("width differs: %v vs %v", p.r, p.c)
				}
				if a, b := Eval(p.r, m, mr), Eval(p.c, m, mc); a != b {
					t.Fatalf("round %d: raw %v = %#x, canonical %v = %#x under %v", round, p.r, a, p.c, b, m)
				}
			}
			for _, p := range bools {
				if a, b := Eval(p.r, m, mr), Eval(p.c, m, mc); a != b {
					t.Fatalf("round %d: raw %v = %v, canonical %v = %v under %v", round, p.r, a, p.c, b, m)
				}
			}
		}
	}
}

// The word encoding of common/bytes collapses to the identity.
func TestCanonBitLoop(t *testing.T) {
	s := NewStore()
	n := s.Var("n", 32)
	var bytesOut [4]*Term
	for b := 0; b < 4; b++ {
		acc := s.BV(8, 0)
		for i := 0; i < 8; i++ {
			bit := s.Not(s.Eq(s.Bin(OpBAnd, n, s.BV(32, 1<<uint(8*b+i))), s.BV(32, 0)))
			acc = s.Ite(bit, s.Bin(OpBOr, acc, s.BV(8, 1<<uint(i))), acc)
		}
		bytesOut[b] = acc
		if want := s.Extract(n, 8*b+7, 8*b); acc != want {
			t.Fatalf("byte %d: got %v want %v", b, acc, want)
		}
	}
	res := s.BV(32, 0)
	idx := 0
	for b := 0; b < 4; b++ {
		for i := 0; i < 8; i++ {
			bit := s.Not(s.Eq(s.Bin(OpBAnd, bytesOut[b], s.BV(8, 1<<uint(i))), s.BV(8, 0)))
			res = s.Ite(bit, s.Bin(OpBOr, res, s.BV(32, 1<<uint(idx))), res)
			idx++
		}
	}
	if res != n {
		t.Fatalf("round trip: got %v", res)
	}
}
