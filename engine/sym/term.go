// Package sym holds hash-consed SMT terms (Bool and fixed-width bit-vectors),
// a local simplifier, an SMT-LIB2 printer and a solver process wrapper.
package sym

import (
	"fmt"
	"math/bits"
	"strings"
	"sync"
)

type Op uint8

const (
	OpConst Op = iota
	OpVar
	// Bool
	OpNot
	OpAnd
	OpOr
	OpIte // also BV
	OpEq
	// BV arithmetic
	OpAdd
	OpSub
	OpMul
	OpUDiv
	OpURem
	OpSDiv
	OpSRem
	OpBAnd
	OpBOr
	OpBXor
	OpBNot
	OpNeg
	OpShl
	OpLShr
	OpAShr
	// BV predicates
	OpULt
	OpULe
	OpSLt
	OpSLe
	// width changing
	OpExtract // P1=hi P2=lo
	OpConcat
	OpZExt // P1 = extra bits
	OpSExt
)

var opNames = map[Op]string{
	OpNot: "not", OpAnd: "and", OpOr: "or", OpIte: "ite", OpEq: "=",
	OpAdd: "bvadd", OpSub: "bvsub", OpMul: "bvmul", OpUDiv: "bvudiv", OpURem: "bvurem",
	OpSDiv: "bvsdiv", OpSRem: "bvsrem", OpBAnd: "bvand", OpBOr: "bvor", OpBXor: "bvxor",
	OpBNot: "bvnot", OpNeg: "bvneg", OpShl: "bvshl", OpLShr: "bvlshr", OpAShr: "bvashr",
	OpULt: "bvult", OpULe: "bvule", OpSLt: "bvslt", OpSLe: "bvsle", OpConcat: "concat",
}

// Term is an immutable, hash-consed node. W==0 means Bool.
type Term struct {
	Op     Op
	W      int
	Args   []*Term
	Val    uint64 // constants (masked to W; Bool: 0/1)
	Name   string // variables
	P1, P2 int
	ID     int
	NZ     uint64 // bits that may be non-zero (W <= 64)
}

type Store struct {
	Raw   bool // no canonicalisation (test baseline)
	mu    sync.Mutex
	table map[string]*Term
	next  int
	Vars  []*Term
}

func NewStore() *Store { return &Store{table: map[string]*Term{}} }

func mask(w int) uint64 {
	if w >= 64 {
		return ^uint64(0)
	}
	return (uint64(1) << uint(w)) - 1
}

func (s *Store) intern(t Term) *Term {
	var sb strings.Builder
	fmt.Fprintf(&sb, "%d|%d|%d|%s|%d|%d", t.Op, t.W, t.Val, t.Name, t.P1, t.P2)
	for _, a := range t.Args {
		fmt.Fprintf(&sb, "|%d", a.ID)
	}
	k := sb.String()
	s.mu.Lock()
	defer s.mu.Unlock()
	if x, ok := s.table[k]; ok {
		return x
	}
	s.next++
	t.ID = s.next
	t.NZ = computeNZ(&t)
	p := &t
	s.table[k] = p
	if t.Op == OpVar {
		s.Vars = append(s.Vars, p)
	}
	return p
}

func (t *Term) IsConst() bool { return t.Op == OpConst }
func (t *Term) IsBool() bool  { return t.W == 0 }
func (t *Term) IsTrue() bool  { return t.Op == OpConst && t.W == 0 && t.Val == 1 }
func (t *Term) IsFalse() bool { return t.Op == OpConst && t.W == 0 && t.Val == 0 }

func (s *Store) BV(w int, v uint64) *Term { return s.intern(Term{Op: OpConst, W: w, Val: v & mask(w)}) }
func (s *Store) Bool(b bool) *Term {
	if b {
		return s.intern(Term{Op: OpConst, W: 0, Val: 1})
	}
	return s.intern(Term{Op: OpConst, W: 0, Val: 0})
}
func (s *Store) Var(name string, w int) *Term { return s.intern(Term{Op: OpVar, W: w, Name: name}) }

func sext(v uint64, w int) int64 {
	if w >= 64 {
		return int64(v)
	}
	sh := uint(64 - w)
	return int64(v<<sh) >> sh
}

func (s *Store) Not(a *Term) *Term {
	if a.IsConst() {
		return s.Bool(a.Val == 0)
	}
	if a.Op == OpNot {
		return a.Args[0]
	}
	return s.intern(Term{Op: OpNot, Args: []*Term{a}})
}

func (s *Store) And(a, b *Term) *Term {
	if a.IsFalse() || b.IsFalse() {
		return s.Bool(false)
	}
	if a.IsTrue() {
		return b
	}
	if b.IsTrue() {
		return a
	}
	if a == b {
		return a
	}
	return s.intern(Term{Op: OpAnd, Args: []*Term{a, b}})
}

func (s *Store) Or(a, b *Term) *Term {
	if a.IsTrue() || b.IsTrue() {
		return s.Bool(true)
	}
	if a.IsFalse() {
		return b
	}
	if b.IsFalse() {
		return a
	}
	if a == b {
		return a
	}
	return s.intern(Term{Op: OpOr, Args: []*Term{a, b}})
}

func (s *Store) Ite(c, a, b *Term) *Term {
	if c.IsTrue() {
		return a
	}
	if c.IsFalse() {
		return b
	}
	if a == b {
		return a
	}
	if a.W == 0 {
		if a.IsTrue() && b.IsFalse() {
			return c
		}
		if a.IsFalse() && b.IsTrue() {
			return s.Not(c)
		}
		if a.IsTrue() {
			return s.Or(c, b)
		}
		if a.IsFalse() {
			return s.And(s.Not(c), b)
		}
		if b.IsTrue() {
			return s.Or(s.Not(c), a)
		}
		if b.IsFalse() {
			return s.And(c, a)
		}
	}
	if !s.Raw {
		if a.Op == OpIte && a.Args[0] == c {
			return s.Ite(c, a.Args[1], b)
		}
		if b.Op == OpIte && b.Args[0] == c {
			return s.Ite(c, a, b.Args[2])
		}
	}
	if !s.Raw && a.W > 0 {
		if r, ok := s.iteConcat(c, a, b); ok {
			return r
		}
		return s.iteRaw(c, a, b)
	}
	return s.intern(Term{Op: OpIte, W: a.W, Args: []*Term{c, a, b}})
}

func (s *Store) Eq(a, b *Term) *Term {
	if a == b {
		return s.Bool(true)
	}
	if a.IsConst() && b.IsConst() {
		return s.Bool(a.Val == b.Val)
	}
	if a.W == 0 {
		if a.IsTrue() {
			return b
		}
		if b.IsTrue() {
			return a
		}
		if a.IsFalse() {
			return s.Not(b)
		}
		if b.IsFalse() {
			return s.Not(a)
		}
	}
	if !s.Raw && a.W > 0 {
		if r := s.liftIteConst(a, b, func(x, y *Term) *Term { return s.Eq(x, y) }); r != nil {
			return r
		}
		if r, ok := s.eqConcat(a, b); ok {
			return r
		}
		return s.eqRaw(a, b)
	}
	if a.ID > b.ID {
		a, b = b, a
	}
	return s.intern(Term{Op: OpEq, Args: []*Term{a, b}})
}

func evalBin(op Op, w int, x, y uint64) (uint64, bool) {
	m := mask(w)
	switch op {
	case OpAdd:
		return (x + y) & m, true
	case OpSub:
		return (x - y) & m, true
	case OpMul:
		return (x * y) & m, true
	case OpUDiv:
		if y == 0 {
			return m, true
		}
		return (x / y) & m, true
	case OpURem:
		if y == 0 {
			return x, true
		}
		return (x % y) & m, true
	case OpSDiv:
		sx, sy := sext(x, w), sext(y, w)
		if sy == 0 {
			if sx < 0 {
				return 1, true
			}
			return m, true
		}
		if sy == -1 {
			return uint64(-sx) & m, true
		}
		return uint64(sx/sy) & m, true
	case OpSRem:
		sx, sy := sext(x, w), sext(y, w)
		if sy == 0 {
			return x, true
		}
		if sy == -1 {
			return 0, true
		}
		return uint64(sx%sy) & m, true
	case OpBAnd:
		return x & y, true
	case OpBOr:
		return x | y, true
	case OpBXor:
		return x ^ y, true
	case OpShl:
		if y >= uint64(w) {
			return 0, true
		}
		return (x << y) & m, true
	case OpLShr:
		if y >= uint64(w) {
			return 0, true
		}
		return x >> y, true
	case OpAShr:
		sx := sext(x, w)
		if y >= uint64(w) {
			y = uint64(w - 1)
		}
		return uint64(sx>>y) & m, true
	}
	return 0, false
}

// Bin builds a width-preserving binary BV operation.
func (s *Store) Bin(op Op, a, b *Term) *Term {
	if a.W != b.W {
		panic(fmt.Sprintf("sym.Bin %v width mismatch %d %d", opNames[op], a.W, b.W))
	}
	if a.IsConst() && b.IsConst() {
		if v, ok := evalBin(op, a.W, a.Val, b.Val); ok {
			return s.BV(a.W, v)
		}
	}
	w := a.W
	if !s.Raw {
		if r := s.liftIteConst(a, b, func(x, y *Term) *Term { return s.Bin(op, x, y) }); r != nil {
			return r
		}
	}
	if !s.Raw && w <= 64 {
		switch op {
		case OpBAnd:
			if b.IsConst() && b.Val != 0 && b.Val != mask(w) {
				if r, ok := s.andMask(a, b.Val); ok {
					return r
				}
			}
			if a.IsConst() && a.Val != 0 && a.Val != mask(w) {
				if r, ok := s.andMask(b, a.Val); ok {
					return r
				}
			}
			if a.NZ&b.NZ == 0 {
				return s.BV(w, 0)
			}
		case OpBOr, OpBXor, OpAdd:
			if r, ok := s.disjoint(a, b); ok {
				return r
			}
		case OpShl:
			if b.IsConst() && b.Val > 0 && b.Val < uint64(w) {
				k := int(b.Val)
				return s.ConcatN([]*Term{s.Extract(a, w-1-k, 0), s.BV(k, 0)})
			}
		case OpLShr:
			if b.IsConst() && b.Val > 0 && b.Val < uint64(w) {
				k := int(b.Val)
				return s.ConcatN([]*Term{s.BV(k, 0), s.Extract(a, w-1, k)})
			}
		}
	}
	switch op {
	case OpAdd:
		if a.IsConst() && a.Val == 0 {
			return b
		}
		if b.IsConst() && b.Val == 0 {
			return a
		}
	case OpSub:
		if b.IsConst() && b.Val == 0 {
			return a
		}
		if a == b {
			return s.BV(w, 0)
		}
	case OpBAnd:
		if a == b {
			return a
		}
		if a.IsConst() {
			a, b = b, a
		}
		if b.IsConst() {
			if b.Val == 0 {
				return b
			}
			if b.Val == mask(w) {
				return a
			}
		}
	case OpBOr:
		if a == b {
			return a
		}
		if a.IsConst() {
			a, b = b, a
		}
		if b.IsConst() {
			if b.Val == 0 {
				return a
			}
			if b.Val == mask(w) {
				return b
			}
		}
	case OpBXor:
		if a == b {
			return s.BV(w, 0)
		}
		if b.IsConst() && b.Val == 0 {
			return a
		}
		if a.IsConst() && a.Val == 0 {
			return b
		}
	case OpShl, OpLShr, OpAShr:
		if b.IsConst() && b.Val == 0 {
			return a
		}
	case OpMul:
		if b.IsConst() && b.Val == 1 {
			return a
		}
		if a.IsConst() && a.Val == 1 {
			return b
		}
	}
	// commutative normalisation
	switch op {
	case OpAdd, OpMul, OpBAnd, OpBOr, OpBXor:
		if a.ID > b.ID {
			a, b = b, a
		}
	}
	return s.intern(Term{Op: op, W: w, Args: []*Term{a, b}})
}

func (s *Store) Cmp(op Op, a, b *Term) *Term {
	if a.W != b.W {
		panic("sym.Cmp width mismatch")
	}
	if a.IsConst() && b.IsConst() {
		switch op {
		case OpULt:
			return s.Bool(a.Val < b.Val)
		case OpULe:
			return s.Bool(a.Val <= b.Val)
		case OpSLt:
			return s.Bool(sext(a.Val, a.W) < sext(b.Val, a.W))
		case OpSLe:
			return s.Bool(sext(a.Val, a.W) <= sext(b.Val, a.W))
		}
	}
	if a == b {
		return s.Bool(op == OpULe || op == OpSLe)
	}
	if !s.Raw {
		if r := s.liftIteConst(a, b, func(x, y *Term) *Term { return s.Cmp(op, x, y) }); r != nil {
			return r
		}
	}
	return s.intern(Term{Op: op, Args: []*Term{a, b}})
}

func (s *Store) BNot(a *Term) *Term {
	if a.IsConst() {
		return s.BV(a.W, ^a.Val)
	}
	if a.Op == OpBNot {
		return a.Args[0]
	}
	return s.intern(Term{Op: OpBNot, W: a.W, Args: []*Term{a}})
}

func (s *Store) Neg(a *Term) *Term {
	if a.IsConst() {
		return s.BV(a.W, -a.Val)
	}
	return s.intern(Term{Op: OpNeg, W: a.W, Args: []*Term{a}})
}

func (s *Store) Extract(a *Term, hi, lo int) *Term {
	w := hi - lo + 1
	if lo == 0 && w == a.W {
		return a
	}
	if a.IsConst() {
		return s.BV(w, a.Val>>uint(lo))
	}
	switch a.Op {
	case OpZExt, OpSExt:
		inner := a.Args[0]
		if hi < inner.W {
			return s.Extract(inner, hi, lo)
		}
		if a.Op == OpZExt && lo >= inner.W {
			return s.BV(w, 0)
		}
	case OpExtract:
		return s.Extract(a.Args[0], hi+a.P2, lo+a.P2)
	case OpConcat:
		lowW := a.Args[1].W
		if hi < lowW {
			return s.Extract(a.Args[1], hi, lo)
		}
		if lo >= lowW {
			return s.Extract(a.Args[0], hi-lowW, lo-lowW)
		}
	case OpIte:
		if a.Args[1].IsConst() && a.Args[2].IsConst() {
			return s.Ite(a.Args[0], s.Extract(a.Args[1], hi, lo), s.Extract(a.Args[2], hi, lo))
		}
	}
	return s.intern(Term{Op: OpExtract, W: w, Args: []*Term{a}, P1: hi, P2: lo})
}

func (s *Store) Concat(hi, lo *Term) *Term {
	if hi.IsConst() && lo.IsConst() && hi.W+lo.W <= 64 {
		return s.BV(hi.W+lo.W, hi.Val<<uint(lo.W)|lo.Val)
	}
	if !s.Raw {
		return s.ConcatN([]*Term{hi, lo})
	}
	return s.intern(Term{Op: OpConcat, W: hi.W + lo.W, Args: []*Term{hi, lo}})
}

func (s *Store) ZExt(a *Term, to int) *Term {
	if to == a.W {
		return a
	}
	if to < a.W {
		return s.Extract(a, to-1, 0)
	}
	if a.IsConst() {
		return s.BV(to, a.Val)
	}
	if !s.Raw {
		return s.ConcatN([]*Term{s.BV(to-a.W, 0), a})
	}
	return s.intern(Term{Op: OpZExt, W: to, Args: []*Term{a}, P1: to - a.W})
}

func (s *Store) SExt(a *Term, to int) *Term {
	if to == a.W {
		return a
	}
	if to < a.W {
		return s.Extract(a, to-1, 0)
	}
	if a.IsConst() {
		return s.BV(to, uint64(sext(a.Val, a.W)))
	}
	return s.intern(Term{Op: OpSExt, W: to, Args: []*Term{a}, P1: to - a.W})
}

// Eval evaluates t under a model (variable name -> value).
func Eval(t *Term, m map[string]uint64, memo map[int]uint64) uint64 {
	if v, ok := memo[t.ID]; ok {
		return v
	}
	var r uint64
	arg := func(i int) uint64 { return Eval(t.Args[i], m, memo) }
	b2u := func(b bool) uint64 {
		if b {
			return 1
		}
		return 0
	}
	switch t.Op {
	case OpConst:
		r = t.Val
	case OpVar:
		r = m[t.Name] & mask(t.W)
		if t.W == 0 {
			r = m[t.Name] & 1
		}
	case OpNot:
		r = 1 - arg(0)
	case OpAnd:
		r = arg(0) & arg(1)
	case OpOr:
		r = arg(0) | arg(1)
	case OpIte:
		if arg(0) == 1 {
			r = arg(1)
		} else {
			r = arg(2)
		}
	case OpEq:
		r = b2u(arg(0) == arg(1))
	case OpBNot:
		r = ^arg(0) & mask(t.W)
	case OpNeg:
		r = -arg(0) & mask(t.W)
	case OpULt:
		r = b2u(arg(0) < arg(1))
	case OpULe:
		r = b2u(arg(0) <= arg(1))
	case OpSLt:
		r = b2u(sext(arg(0), t.Args[0].W) < sext(arg(1), t.Args[0].W))
	case OpSLe:
		r = b2u(sext(arg(0), t.Args[0].W) <= sext(arg(1), t.Args[0].W))
	case OpExtract:
		r = (arg(0) >> uint(t.P2)) & mask(t.W)
	case OpConcat:
		r = (arg(0)<<uint(t.Args[1].W) | arg(1)) & mask(t.W)
	case OpZExt:
		r = arg(0)
	case OpSExt:
		r = uint64(sext(arg(0), t.Args[0].W)) & mask(t.W)
	default:
		v, ok := evalBin(t.Op, t.W, arg(0), arg(1))
		if !ok {
			panic("sym.Eval: op")
		}
		r = v
	}
	memo[t.ID] = r
	return r
}

// SMT prints t as SMT-LIB2 using let-free shared sub-terms via define-fun
// emitted by the Printer (see solver.go). Here: plain recursive form with memo
// of names.
func (t *Term) smt(names map[int]string, sb *strings.Builder) {
	if n, ok := names[t.ID]; ok {
		sb.WriteString(n)
		return
	}
	switch t.Op {
	case OpConst:
		if t.W == 0 {
			if t.Val == 1 {
				sb.WriteString("true")
			} else {
				sb.WriteString("false")
			}
			return
		}
		if t.W%4 == 0 {
			fmt.Fprintf(sb, "#x%0*x", t.W/4, t.Val)
		} else {
			fmt.Fprintf(sb, "#b%0*b", t.W, t.Val)
		}
	case OpVar:
		sb.WriteString(t.Name)
	case OpExtract:
		fmt.Fprintf(sb, "((_ extract %d %d) ", t.P1, t.P2)
		t.Args[0].smt(names, sb)
		sb.WriteString(")")
	case OpZExt:
		fmt.Fprintf(sb, "((_ zero_extend %d) ", t.P1)
		t.Args[0].smt(names, sb)
		sb.WriteString(")")
	case OpSExt:
		fmt.Fprintf(sb, "((_ sign_extend %d) ", t.P1)
		t.Args[0].smt(names, sb)
		sb.WriteString(")")
	default:
		sb.WriteString("(")
		sb.WriteString(opNames[t.Op])
		for _, a := range t.Args {
			sb.WriteString(" ")
			a.smt(names, sb)
		}
		sb.WriteString(")")
	}
}

func (t *Term) String() string {
	var sb strings.Builder
	t.smt(map[int]string{}, &sb)
	return sb.String()
}

func sortOf(t *Term) string {
	if t.W == 0 {
		return "Bool"
	}
	return fmt.Sprintf("(_ BitVec %d)", t.W)
}

var _ = bits.Len
