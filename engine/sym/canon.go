package sym

// Canonicalisation of bit-level data movement. The simulator moves words
// through bit loops (common/bytes), masks and shifts; without care a value that
// was stored and reloaded is a 100-node ite/or tree. The rules below keep such
// values in a canonical "concatenation of slices" form, so that most
// machine-level equalities are decided syntactically and the rest are small.
//
// Every rule is a bit-vector identity; sym/canon_test.go checks the rewriting
// store against a raw store on random term DAGs and random assignments.

func computeNZ(t *Term) uint64 {
	if t.W == 0 {
		return 1
	}
	if t.W > 64 {
		return ^uint64(0)
	}
	m := mask(t.W)
	switch t.Op {
	case OpConst:
		return t.Val
	case OpBAnd:
		return t.Args[0].NZ & t.Args[1].NZ
	case OpBOr, OpBXor:
		return (t.Args[0].NZ | t.Args[1].NZ) & m
	case OpIte:
		return (t.Args[1].NZ | t.Args[2].NZ) & m
	case OpConcat:
		hi, lo := t.Args[0], t.Args[1]
		return (hi.NZ<<uint(lo.W) | lo.NZ) & m
	case OpExtract:
		if t.Args[0].W > 64 {
			return m
		}
		return (t.Args[0].NZ >> uint(t.P2)) & m
	case OpShl:
		if k := t.Args[1]; k.IsConst() && k.Val < uint64(t.W) {
			return (t.Args[0].NZ << k.Val) & m
		}
	case OpLShr:
		if k := t.Args[1]; k.IsConst() && k.Val < uint64(t.W) {
			return t.Args[0].NZ >> k.Val
		}
	case OpZExt:
		return t.Args[0].NZ
	}
	return m
}

// parts flattens a concatenation, high part first.
func parts(t *Term, out []*Term) []*Term {
	if t.Op == OpConcat {
		out = parts(t.Args[0], out)
		return parts(t.Args[1], out)
	}
	return append(out, t)
}

// ConcatN builds the canonical concatenation of ps (high part first).
func (s *Store) ConcatN(ps []*Term) *Term {
	var flat []*Term
	for _, p := range ps {
		flat = parts(p, flat)
	}
	// merge neighbours
	var m []*Term
	for _, p := range flat {
		if len(m) > 0 {
			q := m[len(m)-1]
			if q.IsConst() && p.IsConst() && q.W+p.W <= 64 {
				m[len(m)-1] = s.BV(q.W+p.W, q.Val<<uint(p.W)|p.Val)
				continue
			}
			if q.Op == OpExtract && p.Op == OpExtract && q.Args[0] == p.Args[0] && q.P2 == p.P1+1 {
				m[len(m)-1] = s.Extract(q.Args[0], q.P1, p.P2)
				continue
			}
			// a whole term next to a slice of itself cannot happen (widths); bit of x next to bit of x handled above
		}
		m = append(m, p)
	}
	acc := m[len(m)-1]
	for i := len(m) - 2; i >= 0; i-- {
		acc = s.intern(Term{Op: OpConcat, W: m[i].W + acc.W, Args: []*Term{m[i], acc}})
	}
	return acc
}

// contiguous reports whether k (within w bits) is a single run of ones.
func contiguous(k uint64, w int) (hi, lo int, ok bool) {
	if k == 0 {
		return 0, 0, false
	}
	lo = 0
	for k&1 == 0 {
		k >>= 1
		lo++
	}
	hi = lo
	for k&1 == 1 {
		k >>= 1
		hi++
	}
	if k != 0 {
		return 0, 0, false
	}
	return hi - 1, lo, true
}

// andMask rewrites x & K for a contiguous mask K into zeros ++ slice ++ zeros.
func (s *Store) andMask(x *Term, k uint64) (*Term, bool) {
	w := x.W
	if w > 64 {
		return nil, false
	}
	hi, lo, ok := contiguous(k&mask(w), w)
	if !ok {
		return nil, false
	}
	var ps []*Term
	if hi < w-1 {
		ps = append(ps, s.BV(w-1-hi, 0))
	}
	ps = append(ps, s.Extract(x, hi, lo))
	if lo > 0 {
		ps = append(ps, s.BV(lo, 0))
	}
	return s.ConcatN(ps), true
}

// disjoint rewrites a|b (== a^b == a+b) when no bit can be set in both.
func (s *Store) disjoint(a, b *Term) (*Term, bool) {
	w := a.W
	if w > 64 || w == 0 || a.NZ&b.NZ != 0 {
		return nil, false
	}
	if a.NZ == 0 {
		return b, true
	}
	if b.NZ == 0 {
		return a, true
	}
	// runs, from the top bit down: 0 = neither, 1 = a, 2 = b
	owner := func(i int) int {
		switch {
		case a.NZ>>uint(i)&1 == 1:
			return 1
		case b.NZ>>uint(i)&1 == 1:
			return 2
		}
		return 0
	}
	type run struct{ hi, lo, who int }
	var runs []run
	i := w - 1
	for i >= 0 {
		o := owner(i)
		j := i
		for j-1 >= 0 && owner(j-1) == o {
			j--
		}
		runs = append(runs, run{i, j, o})
		i = j - 1
	}
	if len(runs) > 12 {
		return nil, false
	}
	var ps []*Term
	for _, r := range runs {
		switch r.who {
		case 0:
			ps = append(ps, s.BV(r.hi-r.lo+1, 0))
		case 1:
			ps = append(ps, s.Extract(a, r.hi, r.lo))
		case 2:
			ps = append(ps, s.Extract(b, r.hi, r.lo))
		}
	}
	return s.ConcatN(ps), true
}

func cuts(t *Term, set map[int]bool) {
	pos := t.W
	for _, p := range parts(t, nil) {
		pos -= p.W
		if pos > 0 {
			set[pos] = true
		}
	}
}

// iteConcat pushes an ite into the slices in which its branches differ.
func (s *Store) iteConcat(c, a, b *Term) (*Term, bool) {
	w := a.W
	if w == 0 || w > 64 || w == 1 {
		return nil, false
	}
	if a.Op != OpConcat && b.Op != OpConcat && !(a.IsConst() && b.IsConst()) {
		return nil, false
	}
	set := map[int]bool{}
	cuts(a, set)
	cuts(b, set)
	if a.IsConst() && b.IsConst() {
		// split where the differing bits start and stop
		x := a.Val ^ b.Val
		for i := 1; i < w; i++ {
			if (x>>uint(i))&1 != (x>>uint(i-1))&1 {
				set[i] = true
			}
		}
	}
	if len(set) == 0 || len(set) > 16 {
		return nil, false
	}
	var pos []int
	for p := range set {
		pos = append(pos, p)
	}
	// sort descending
	for i := 0; i < len(pos); i++ {
		for j := i + 1; j < len(pos); j++ {
			if pos[j] > pos[i] {
				pos[i], pos[j] = pos[j], pos[i]
			}
		}
	}
	pos = append(pos, 0)
	hi := w - 1
	shared := false
	var ps []*Term
	for _, p := range pos {
		pa, pb := s.Extract(a, hi, p), s.Extract(b, hi, p)
		if pa == pb {
			shared = true
			ps = append(ps, pa)
		} else {
			if pa.IsConst() && pb.IsConst() && pa.W > 1 {
				// split constants further by runs of differing bits (bounded)
				x := pa.Val ^ pb.Val
				n := 0
				for i := 1; i < pa.W; i++ {
					if (x>>uint(i))&1 != (x>>uint(i-1))&1 {
						n++
					}
				}
				if n > 0 && n <= 6 {
					sub, _ := s.iteConcat(c, pa, pb)
					if sub != nil {
						shared = true
						ps = append(ps, sub)
						hi = p - 1
						continue
					}
				}
			}
			ps = append(ps, s.iteRaw(c, pa, pb))
		}
		hi = p - 1
	}
	if !shared {
		return nil, false
	}
	return s.ConcatN(ps), true
}

// iteRaw is Ite without the concat rule (used for the pieces).
func (s *Store) iteRaw(c, a, b *Term) *Term {
	if a == b {
		return a
	}
	if a.W == 1 && a.IsConst() && b.IsConst() {
		// bool -> bit
		if a.Val == 0 { // ite(c,0,1) = ite(!c,1,0)
			c = s.Not(c)
		}
		if c.Op == OpEq && c.Args[0].W == 1 {
			x, y := c.Args[0], c.Args[1]
			if y.IsConst() && y.Val == 1 {
				return x
			}
			if x.IsConst() && x.Val == 1 {
				return y
			}
		}
		if c.Op == OpNot && c.Args[0].Op == OpEq && c.Args[0].Args[0].W == 1 {
			e := c.Args[0]
			x, y := e.Args[0], e.Args[1]
			if y.IsConst() && y.Val == 1 {
				return s.BNot(x)
			}
			if x.IsConst() && x.Val == 1 {
				return s.BNot(y)
			}
		}
		return s.intern(Term{Op: OpIte, W: 1, Args: []*Term{c, s.BV(1, 1), s.BV(1, 0)}})
	}
	if c.Op == OpNot {
		return s.intern(Term{Op: OpIte, W: a.W, Args: []*Term{c.Args[0], b, a}})
	}
	return s.intern(Term{Op: OpIte, W: a.W, Args: []*Term{c, a, b}})
}

// eqConcat splits an equality along the slices of a concatenation.
func (s *Store) eqConcat(a, b *Term) (*Term, bool) {
	if a.W == 0 || a.W > 64 {
		return nil, false
	}
	if a.Op != OpConcat && b.Op != OpConcat {
		return nil, false
	}
	// only when one side is a constant or both are concatenations: otherwise slicing an opaque term gains nothing
	if !(a.IsConst() || b.IsConst() || (a.Op == OpConcat && b.Op == OpConcat)) {
		return nil, false
	}
	set := map[int]bool{}
	cuts(a, set)
	cuts(b, set)
	if len(set) == 0 || len(set) > 16 {
		return nil, false
	}
	var pos []int
	for p := range set {
		pos = append(pos, p)
	}
	for i := 0; i < len(pos); i++ {
		for j := i + 1; j < len(pos); j++ {
			if pos[j] > pos[i] {
				pos[i], pos[j] = pos[j], pos[i]
			}
		}
	}
	pos = append(pos, 0)
	hi := a.W - 1
	r := s.Bool(true)
	for _, p := range pos {
		r = s.And(r, s.eqRaw(s.Extract(a, hi, p), s.Extract(b, hi, p)))
		if r.IsFalse() {
			return r, true
		}
		hi = p - 1
	}
	return r, true
}

func (s *Store) eqRaw(a, b *Term) *Term {
	if a == b {
		return s.Bool(true)
	}
	if a.IsConst() && b.IsConst() {
		return s.Bool(a.Val == b.Val)
	}
	if a.W == 1 {
		// normalise 1-bit equalities to "x = #b1"
		if a.IsConst() {
			a, b = b, a
		}
		if b.IsConst() {
			if b.Val == 1 {
				return s.intern(Term{Op: OpEq, Args: order(a, b)})
			}
			return s.Not(s.intern(Term{Op: OpEq, Args: order(a, s.BV(1, 1))}))
		}
	}
	return s.intern(Term{Op: OpEq, Args: order(a, b)})
}

func order(a, b *Term) []*Term {
	if a.ID > b.ID {
		return []*Term{b, a}
	}
	return []*Term{a, b}
}

// liftIteConst pushes an operation with a constant operand into an ite whose
// branches are constants: op(ite(c,K1,K2), K) = ite(c, op(K1,K), op(K2,K)).
func (s *Store) liftIteConst(a, b *Term, op func(x, y *Term) *Term) *Term {
	isIteConst := func(t *Term) bool {
		return t.Op == OpIte && t.W > 0 && t.Args[1].IsConst() && t.Args[2].IsConst()
	}
	switch {
	case isIteConst(a) && b.IsConst():
		return s.Ite(a.Args[0], op(a.Args[1], b), op(a.Args[2], b))
	case isIteConst(b) && a.IsConst():
		return s.Ite(b.Args[0], op(a, b.Args[1]), op(a, b.Args[2]))
	}
	return nil
}
