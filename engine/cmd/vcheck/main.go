// vcheck is the entry point of the /verif checks: `vcheck run -prop C02 -tier
// quick`, `vcheck replay <case.json>`.
package main

import (
	"encoding/json"
	"flag"
	"fmt"
	"os"
	"path/filepath"
	"runtime"
	"runtime/debug"
	"runtime/pprof"
	"strconv"
	"time"

	"verif/engine/drive"
)

func main() {
	debug.SetGCPercent(800)
	if len(os.Args) < 2 {
		fmt.Println("usage: vcheck run|replay|list ...")
		os.Exit(2)
	}
	switch os.Args[1] {
	case "run":
		os.Exit(run(os.Args[2:]))
	case "replay":
		os.Exit(replay(os.Args[2:]))
	default:
		fmt.Println("unknown command", os.Args[1])
		os.Exit(2)
	}
}

func verifDir() string {
	if d := os.Getenv("VERIF_DIR"); d != "" {
		return d
	}
	exe, err := os.Executable()
	if err == nil {
		d := filepath.Dir(filepath.Dir(exe))
		if _, err := os.Stat(filepath.Join(d, "harness")); err == nil {
			return d
		}
	}
	return "/verif"
}

func repoDir() string {
	if d := os.Getenv("VERIF_REPO"); d != "" {
		return d
	}
	return "/repo"
}

func run(args []string) int {
	fs := flag.NewFlagSet("run", flag.ExitOnError)
	prop := fs.String("prop", "", "property id")
	tier := fs.String("tier", "", "quick|thorough")
	workers := fs.Int("workers", runtime.NumCPU(), "")
	solver := fs.String("solver", "z3", "z3|z3-new")
	verbose := fs.Bool("v", false, "")
	propose := fs.Bool("propose-known", false, "developer only: print candidate known-findings lines")
	only := fs.String("only", "", "developer only: run only jobs whose key contains this")
	prof := fs.String("cpuprofile", "", "developer only")
	maxPaths := fs.Int("maxpaths", 0, "developer only: override the per-job path budget")
	fs.Parse(args)
	if *prof != "" {
		f, _ := os.Create(*prof)
		pprof.StartCPUProfile(f)
		defer pprof.StopCPUProfile()
	}
	if *tier == "" {
		*tier = os.Getenv("VERIF_TIER")
	}
	if *tier == "" {
		*tier = "quick"
	}
	var seed int64
	if s := os.Getenv("VERIF_SEED"); s != "" {
		seed, _ = strconv.ParseInt(s, 10, 64)
	}
	vd := verifDir()
	t0 := time.Now()
	extra, note, err := drive.Instrument(repoDir(), filepath.Join(vd, ".scratch", fmt.Sprintf("instr-%d", os.Getpid())))
	defer os.RemoveAll(filepath.Join(vd, ".scratch", fmt.Sprintf("instr-%d", os.Getpid())))
	if err != nil {
		fmt.Println("machinery error (instrumentation):", err)
		return 2
	}
	l, err := drive.Load(repoDir(), filepath.Join(vd, "harness"), extra)
	if err != nil {
		fmt.Println("machinery error (load):", err)
		return 2
	}
	spec, err := drive.BuildSpec(l, *prop, *tier, seed, *only)
	if err != nil {
		fmt.Println("machinery error:", err)
		return 2
	}
	if *maxPaths > 0 {
		for _, j := range spec.Jobs {
			j.MaxPaths = *maxPaths
		}
	}
	if spec.Extra == nil {
		spec.Extra = map[string]interface{}{}
	}
	spec.Extra["instrumentation"] = note
	timeout := 20
	if *tier == "thorough" {
		timeout = 120
	}
	if *verbose {
		fmt.Printf("loaded in %.1fs, %d jobs\n", time.Since(t0).Seconds(), len(spec.Jobs))
	}
	return drive.RunCheck(l, spec, drive.Options{VerifDir: vd, Workers: *workers, Solver: *solver, Timeout: timeout, Verbose: *verbose, Propose: *propose})
}

func replay(args []string) int {
	if len(args) < 1 {
		fmt.Println("usage: vcheck replay <case.json>")
		return 2
	}
	b, err := os.ReadFile(args[0])
	if err != nil {
		fmt.Println(err)
		return 2
	}
	var c drive.Case
	if err := json.Unmarshal(b, &c); err != nil {
		fmt.Println(err)
		return 2
	}
	vd := verifDir()
	scratch := filepath.Join(vd, ".scratch", fmt.Sprintf("replay-%d", os.Getpid()))
	defer os.RemoveAll(scratch)
	extra, _, err := drive.Instrument(repoDir(), filepath.Join(scratch, "instr"))
	if err != nil {
		fmt.Println("machinery error (instrumentation):", err)
		return 2
	}
	l, err := drive.Load(repoDir(), filepath.Join(vd, "harness"), extra)
	if err != nil {
		fmt.Println("machinery error (load):", err)
		return 2
	}
	rp := drive.NewReplayer(l, scratch)
	abs, _ := filepath.Abs(args[0])
	o := rp.Run(&c, abs)
	fmt.Printf("case %s\nharness %s.%s params=%v\n", c.Key, c.Pkg, c.Fn, c.Params)
	fmt.Println(o.Output)
	if o.Reproduced {
		fmt.Printf("VIOLATION property=%s replay=%s\n  reproduced: %s\n", c.Property, abs, o.Detail)
		return 1
	}
	fmt.Println("not reproduced:", o.Detail)
	return 0
}
