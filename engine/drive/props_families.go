package drive

import (
	"fmt"
	"math/rand"
	"sort"
	"strings"
)

// ---------------------------------------------------------------------------
// Skeleton families (DESIGN §4.2). Every skeleton is a concrete instruction
// sequence; all register and memory contents are symbolic unless named in Init.
// Addresses are concrete by construction (absolute offsets from zero, or base
// registers with concrete initial values that the program never overwrites).
// ---------------------------------------------------------------------------

var depRegs = []string{"t0", "t1", "t2"}

// syncTail makes every load into the given registers complete before the exit
// point by a dependent use (the families other than C09's are not about what
// happens to work that is still in flight at ret; C09 is).
func syncTail(regs ...string) []string {
	dst := []string{"a3", "a4", "a5", "a6", "a7"}
	var out []string
	for i, r := range regs {
		out = append(out, fmt.Sprintf("add %s, %s, zero", dst[i%len(dst)], r))
	}
	return out
}

// canonical relabels the registers t0,t1,t2 in order of first appearance so
// that sequences equal up to renaming are generated once.
func canonical(ins [][]string) string {
	m := map[string]string{}
	next := 0
	var sb strings.Builder
	for _, in := range ins {
		sb.WriteString(in[0])
		for _, r := range in[1:] {
			if _, ok := m[r]; !ok {
				m[r] = depRegs[next]
				next++
			}
			sb.WriteString(" " + m[r])
		}
		sb.WriteString(";")
	}
	return sb.String()
}

// depForms enumerates one instruction over the three registers:
// {"add",rd,rs1,rs2} {"lw",rd} {"sw",rs} {"beq",rs1,rs2}
func depForms(withBranch bool) [][]string {
	var out [][]string
	for _, rd := range depRegs {
		for _, a := range depRegs {
			for _, b := range depRegs {
				out = append(out, []string{"add", rd, a, b})
			}
		}
		out = append(out, []string{"lw", rd})
		out = append(out, []string{"sw", rd})
	}
	if withBranch {
		for _, a := range depRegs {
			for _, b := range depRegs {
				if a <= b {
					out = append(out, []string{"bne", a, b})
				}
			}
		}
	}
	return out
}

func depText(ins [][]string) string {
	var lines []string
	nb := 0
	for i, in := range ins {
		switch in[0] {
		case "add":
			lines = append(lines, fmt.Sprintf("add %s, %s, %s", in[1], in[2], in[3]))
		case "lw":
			// alternate two words of one line so that the first is a miss and a second one a hit
			lines = append(lines, fmt.Sprintf("lw %s, %d(zero)", in[1], 8+4*(i%2)))
		case "sw":
			lines = append(lines, fmt.Sprintf("sw %s, %d(zero)", in[1], 128+4*i))
		case "bne":
			// a data-dependent forward branch over one instruction that writes t3
			nb++
			lines = append(lines, fmt.Sprintf("bne %s, %s, skip%d", in[1], in[2], nb), "addi t3, t3, 1", fmt.Sprintf("skip%d:", nb))
		}
	}
	lines = append(lines, syncTail("t0", "t1", "t2", "t3")...)
	lines = append(lines, "ret")
	return asm(lines...)
}

// familyDeps: all dependence patterns (RAW, WAW, WAR, chains, fans, mixed
// latency producers, store-data and branch-operand consumers) on L instructions.
func familyDeps(L int, withBranch bool) []Skeleton {
	forms := depForms(withBranch)
	seen := map[string]bool{}
	var out []Skeleton
	var rec func(cur [][]string)
	rec = func(cur [][]string) {
		if len(cur) == L {
			c := canonical(cur)
			if seen[c] {
				return
			}
			seen[c] = true
			// keep only sequences where some register is shared between two instructions
			used := map[string]int{}
			shared := false
			for _, in := range cur {
				loc := map[string]bool{}
				for _, r := range in[1:] {
					loc[r] = true
				}
				for r := range loc {
					used[r]++
					if used[r] > 1 {
						shared = true
					}
				}
			}
			if !shared {
				return
			}
			id := "dep" + fmt.Sprint(L) + ":" + strings.ReplaceAll(strings.TrimSuffix(c, ";"), " ", ".")
			out = append(out, Skeleton{ID: id, Prog: depText(cur)})
			return
		}
		for _, f := range forms {
			rec(append(cur, f))
		}
	}
	rec(nil)
	sort.Slice(out, func(i, j int) bool { return out[i].ID < out[j].ID })
	return out
}

// sample returns n elements chosen by the seed (all if n >= len).
func sample(sk []Skeleton, n int, seed int64) []Skeleton {
	if n >= len(sk) {
		return sk
	}
	r := rand.New(rand.NewSource(seed + 1))
	idx := r.Perm(len(sk))[:n]
	sort.Ints(idx)
	out := make([]Skeleton, 0, n)
	for _, i := range idx {
		out = append(out, sk[i])
	}
	return out
}

// ---------------------------------------------------------------------------
// C10: memory dependences
// ---------------------------------------------------------------------------

func fillers(n int) []string {
	var out []string
	for i := 0; i < n; i++ {
		out = append(out, fmt.Sprintf("addi t%d, t%d, 1", 5+i%2, 5+i%2))
	}
	return out
}

func familyMemDeps(maxDist int, full bool) []Skeleton {
	var out []Skeleton
	type acc struct {
		st, ld string
		k      int
	}
	sizes := []acc{{"sw", "lw", 4}, {"sh", "lh", 2}, {"sb", "lb", 1}}
	if !full {
		sizes = sizes[:1]
	}
	for _, warm := range []bool{false, true} {
		for d := 1; d <= maxDist; d++ {
			for _, sz := range sizes {
				pre := []string{}
				w := "cold"
				if warm {
					pre = append(pre, "lw t6, 16(zero)") // same 64-byte line as address 8
					w = "warm"
				}
				base := func(lines ...string) []string {
					l := append([]string{}, pre...)
					return append(l, lines...)
				}
				// store -> load
				st0, st1 := sz.st+" t0, 8(zero)", sz.st+" t1, 8(zero)"
				if sz.st == "sh" {
					st0, st1 = "sh t0, 8, zero", "sh t1, 8, zero" // the assembler's syntax for sh
				}
				l := base(st0)
				l = append(l, fillers(d-1)...)
				l = append(l, sz.ld+" t3, 8(zero)", "ret")
				out = append(out, Skeleton{ID: fmt.Sprintf("st-ld:%s:%s:d%d", sz.st, w, d), Prog: asm(l...)})
				// load -> store (the load must see the old bytes)
				l = base(sz.ld + " t3, 8(zero)")
				l = append(l, fillers(d-1)...)
				l = append(l, st0, "ret")
				out = append(out, Skeleton{ID: fmt.Sprintf("ld-st:%s:%s:d%d", sz.st, w, d), Prog: asm(l...)})
				// store -> store (the later one stays)
				l = base(st0)
				l = append(l, fillers(d-1)...)
				l = append(l, st1, "ret")
				out = append(out, Skeleton{ID: fmt.Sprintf("st-st:%s:%s:d%d", sz.st, w, d), Prog: asm(l...)})
			}
			w := "cold"
			pre := []string{}
			if warm {
				pre = []string{"lw t6, 16(zero)"}
				w = "warm"
			}
			mk := func(id string, lines ...string) {
				l := append(append([]string{}, pre...), lines[0])
				l = append(l, fillers(d-1)...)
				l = append(l, lines[1:]...)
				l = append(l, "ret")
				out = append(out, Skeleton{ID: fmt.Sprintf("%s:%s:d%d", id, w, d), Prog: asm(l...), Init: "s0=8,s1=8,s2=4"})
			}
			// independent address registers holding the same address
			mk("st-ld:regs", "sw t0, 0(s0)", "lw t3, 0(s1)")
			mk("st-ld:reg-off", "sw t0, 0(s0)", "lw t3, 4(s2)")
			if full || d == 1 {
				// partial overlaps: word store then byte load inside it; byte store then word load
				mk("st-ld:sw-lb", "sw t0, 8(zero)", "lb t3, 9(zero)")
				mk("st-ld:sb-lw", "sb t0, 10(zero)", "lw t3, 8(zero)")
				// same line, different word: must not disturb each other
				mk("st-ld:sameline", "sw t0, 8(zero)", "lw t3, 12(zero)")
				mk("st-st:sb-sw", "sb t0, 9(zero)", "sw t1, 8(zero)")
			}
		}
	}
	// store, load, store, load chain on one word
	out = append(out, Skeleton{ID: "chain:sw-lw-sw-lw", Prog: asm("sw t0, 8(zero)", "lw t3, 8(zero)", "sw t1, 8(zero)", "lw t4, 8(zero)", "ret")})
	out = append(out, Skeleton{ID: "chain:dep-addr", Prog: asm("sw t0, 8(zero)", "lw t3, 8(zero)", "add t4, t3, t1", "sw t4, 12(zero)", "lw t5, 12(zero)", "ret")})
	return withSync(out, "t3", "t4", "t5", "t6")
}

// withSync inserts the sync tail before the final ret of every skeleton.
func withSync(sks []Skeleton, regs ...string) []Skeleton {
	tail := strings.Join(syncTail(regs...), "\n") + "\nret\n"
	for i := range sks {
		if strings.HasSuffix(sks[i].Prog, "\nret\n") {
			sks[i].Prog = strings.TrimSuffix(sks[i].Prog, "ret\n") + tail
		} else {
			sks[i].Prog += strings.Join(syncTail(regs...), "\n") + "\n"
		}
	}
	return sks
}

// ---------------------------------------------------------------------------
// C09: tails before the exit point
// ---------------------------------------------------------------------------

func familyTails() []Skeleton {
	bodies := map[string][]string{
		"none": {},
		"alu":  {"add t2, t0, t1"},
		"warm": {"lw t6, 16(zero)"},
	}
	tails := map[string][]string{
		"lw-miss":   {"lw t3, 72(zero)"},
		"lw-hit":    {"lw t3, 8(zero)"},
		"sw-miss":   {"sw t0, 72(zero)"},
		"sw-hit":    {"sw t0, 8(zero)"},
		"alu-chain": {"add t3, t0, t1", "sub t4, t3, t0", "xor t5, t4, t3"},
		"li":        {"li t3, 7"},
		"lw-use":    {"lw t3, 72(zero)", "addi t4, t3, 1"},
		"sw-sw":     {"sw t0, 72(zero)", "sw t1, 76(zero)"},
		"lb-sb":     {"lb t3, 73(zero)", "sb t3, 140(zero)"},
		"mul":       {"mul t3, t0, t1"},
	}
	var out []Skeleton
	var bk, tk []string
	for k := range bodies {
		bk = append(bk, k)
	}
	for k := range tails {
		tk = append(tk, k)
	}
	sort.Strings(bk)
	sort.Strings(tk)
	for _, b := range bk {
		for _, t := range tk {
			if (t == "lw-hit" || t == "sw-hit") != (b == "warm") && (t == "lw-hit" || t == "sw-hit") {
				continue
			}
			for _, end := range []string{"ret", "end"} {
				l := append(append([]string{}, bodies[b]...), tails[t]...)
				if end == "ret" {
					l = append(l, "ret")
				}
				out = append(out, Skeleton{ID: fmt.Sprintf("tail:%s:%s:%s", b, t, end), Prog: asm(l...)})
			}
		}
	}
	return out
}

// ---------------------------------------------------------------------------
// C03: branch shadows
// ---------------------------------------------------------------------------

func familyShadows(full bool) []Skeleton {
	type br struct {
		id   string
		pre  []string
		ins  string
		init string
	}
	branches := []br{
		{"beq-zero", nil, "beq zero, zero, land", ""},                                    // always taken, resolves at once
		{"bnez-li", []string{"li s0, 1"}, "bnez s0, land", ""},                           // taken, operand just produced
		{"bnez-ld", nil, "beqz s3, land", ""},                                            // data-dependent (both outcomes explored)
		{"blt-dd", nil, "blt t0, t1, land", ""},                                          // data-dependent
		{"beq-slow", []string{"lw s0, 72(zero)", "sub s0, s0, s0"}, "beqz s0, land", ""}, // taken, operand behind a cache-missing load
		{"j", nil, "j land", ""},
		{"jal", nil, "jal zero, land", ""},
		{"jal-ra", nil, "jal ra, land", ""},
	}
	shadows := map[string][]string{
		"regw":    {"addi t3, t3, 1"},
		"regw2":   {"addi t3, t3, 1", "add t4, t3, t0"},
		"sw":      {"sw t0, 136(zero)"},
		"sb":      {"sb t0, 137(zero)"},
		"lw":      {"lw t3, 72(zero)"},
		"lw-oob":  {"lw t3, 0(s4)"},
		"jal":     {"jal ra, land"},
		"div0":    {"div t3, t0, zero"},
		"branch":  {"beq zero, zero, far"},
		"sw-regw": {"sw t0, 136(zero)", "addi t3, t3, 1", "lw t4, 8(zero)"},
		"li-li":   {"li t3, 1", "li t4, 2", "li t5, 3"},
	}
	var sk []string
	for k := range shadows {
		sk = append(sk, k)
	}
	sort.Strings(sk)
	var out []Skeleton
	for _, b := range branches {
		for _, s := range sk {
			if !full && (b.id == "jal" || b.id == "bnez-li") && s != "regw" && s != "sw" {
				continue
			}
			if s == "lw-oob" && (b.id == "bnez-ld" || b.id == "blt-dd") {
				continue // executed architecturally on the not-taken path: not a well-formed program
			}
			l := append([]string{}, b.pre...)
			l = append(l, b.ins)
			l = append(l, shadows[s]...)
			l = append(l, "li s5, 9", "add s9, t3, zero", "add s10, t4, zero", "ret") // fall-through code (executed when the branch is not taken)
			l = append(l, "far:", "li s6, 5", "land:", "add s7, t3, t4", "lw s8, 136(zero)", "add s9, s8, zero", "add s10, t3, zero", "add s11, t4, zero", "ret")
			init := "s4=1048576" // an out-of-bounds address for the speculative load
			if s != "lw-oob" {
				init = ""
			}
			out = append(out, Skeleton{ID: fmt.Sprintf("shadow:%s:%s", b.id, s), Prog: asm(l...), Init: init})
		}
	}
	return out
}

// ---------------------------------------------------------------------------
// C05: cache transparency
// ---------------------------------------------------------------------------

func familyCacheShort() []Skeleton {
	var out []Skeleton
	// first-touch offsets inside a line; store then load; load then store; sub-word accesses
	for _, off := range []int{0, 4, 8, 60} {
		for _, base := range []int{0, 64} {
			a := base + off
			out = append(out, Skeleton{ID: fmt.Sprintf("cache:first-touch:%d", a), Prog: asm(
				fmt.Sprintf("lw t3, %d(zero)", a), fmt.Sprintf("sw t0, %d(zero)", a), fmt.Sprintf("lw t4, %d(zero)", a),
				fmt.Sprintf("lw t5, %d(zero)", base), fmt.Sprintf("lw t6, %d(zero)", base+60), "ret")})
		}
	}
	// two fills whose lines overlap when lines are keyed by the first missing address (MVP-3..6)
	out = append(out, Skeleton{ID: "cache:overlap:8-then-0", Prog: asm("lw t3, 8(zero)", "sw t0, 12(zero)", "lw t4, 0(zero)", "sw t1, 8(zero)", "lw t5, 12(zero)", "lw t6, 8(zero)", "ret")})
	out = append(out, Skeleton{ID: "cache:overlap:40-then-8", Prog: asm("lw t3, 40(zero)", "sw t0, 44(zero)", "lw t4, 8(zero)", "sw t1, 40(zero)", "lw t5, 44(zero)", "lw t6, 40(zero)", "ret")})
	out = append(out, Skeleton{ID: "cache:overlap:store-both", Prog: asm("lw t3, 32(zero)", "lw t4, 0(zero)", "sw t0, 32(zero)", "sw t1, 36(zero)", "lw t5, 32(zero)", "lw t6, 36(zero)", "ret")})
	// sub-word traffic
	out = append(out, Skeleton{ID: "cache:subword", Prog: asm("lb t3, 9(zero)", "sb t0, 10(zero)", "lh t4, 10(zero)", "sh t1, 8, zero", "lw t5, 8(zero)", "lb t6, 11(zero)", "ret")})
	// write-miss then read of the neighbouring word, then the written word
	out = append(out, Skeleton{ID: "cache:write-miss", Prog: asm("sw t0, 72(zero)", "lw t3, 76(zero)", "lw t4, 72(zero)", "sw t1, 76(zero)", "lw t5, 76(zero)", "ret")})
	// dirty line left in the cache at the end (no reload): must reach memory
	out = append(out, Skeleton{ID: "cache:dirty-at-exit", Prog: asm("lw t3, 8(zero)", "sw t0, 8(zero)", "sw t1, 12(zero)", "sb t2, 17(zero)", "ret")})
	out = withSync(out, "t3", "t4", "t5", "t6")
	out = append(out, Skeleton{ID: "cache:dirty-at-end", Prog: asm("lw t3, 8(zero)", "add a3, t3, zero", "sw t0, 8(zero)", "sw t1, 12(zero)")})
	return out
}

// familyEviction: touch n distinct lines (stride bytes apart) with a dirty one
// among the victims, then reload the dirty line.
func familyEviction(n, stride int, id string) Skeleton {
	var l []string
	l = append(l, "lw t3, 0(zero)", "sw t0, 4(zero)", "sw t1, 0(zero)") // line 0 present and dirty
	for i := 1; i <= n; i++ {
		l = append(l, fmt.Sprintf("lw t4, %d(zero)", i*stride))
	}
	l = append(l, "lw t5, 4(zero)", "lw t6, 0(zero)")
	l = append(l, syncTail("t3", "t4", "t5", "t6")...)
	l = append(l, "ret")
	return Skeleton{ID: id, Prog: asm(l...), Mem: (n + 2) * stride, SymMem: fmt.Sprintf("0-%d", 16), MaxSteps: n + 16}
}

// ---------------------------------------------------------------------------
// General programs (C01): loops with concrete trip counts, calls, the repo's
// own programs at small sizes with symbolic data.
// ---------------------------------------------------------------------------

func familyGeneral() []Skeleton {
	return []Skeleton{
		{ID: "gen:alu-chain", Prog: asm("add t2, t0, t1", "sub t3, t2, t0", "xor t4, t3, t2", "addi t5, t4, 7", "ret")},
		{ID: "gen:alu-mix", Prog: asm("and t2, t0, t1", "or t3, t2, t0", "slt t4, t3, t1", "sltu t5, t0, t1", "sll t6, t0, t4", "sra s0, t0, t5", "srl s1, t0, t5", "ret")},
		{ID: "gen:imm-mix", Prog: asm("andi t2, t0, 255", "ori t3, t2, 16", "xori t4, t3, -1", "slti t5, t0, 5", "slli t6, t0, 3", "srli s0, t0, 3", "srai s1, t0, 3", "lui s2, 5", "auipc s3, 1", "ret")},
		{ID: "gen:ld-alu-st", Prog: asm("lw t3, 8(zero)", "add t2, t0, t1", "sub t4, t2, t0", "sw t2, 128(zero)", "addi t6, t3, 1", "ret")},
		{ID: "gen:branch-dd", Prog: asm("blt t0, t1, less", "li t5, 1", "j end", "less:", "li t5, 2", "end:", "addi t6, t5, 1", "ret")},
		{ID: "gen:bltu-dd", Prog: asm("bltu t0, t1, less", "li t5, 1", "j end", "less:", "li t5, 2", "end:", "addi t6, t5, 1", "ret")},
		{ID: "gen:bgeu-dd", Prog: asm("bgeu t0, t1, ge", "li t5, 1", "j end", "ge:", "li t5, 2", "end:", "ret")},
		{ID: "gen:ble-bne", Prog: asm("ble t0, t1, a", "addi t2, t2, 1", "a:", "bne t0, t1, b", "addi t3, t3, 1", "b:", "ret")},
		{ID: "gen:loop3", Prog: asm("li s0, 3", "li t2, 0", "loop:", "add t2, t2, t0", "addi s0, s0, -1", "bnez s0, loop", "sw t2, 64(zero)", "ret"), MaxSteps: 32},
		{ID: "gen:loop-mem", Prog: asm("li s0, 0", "li s1, 12", "loop:", "lw t2, 0(s0)", "add t3, t3, t2", "sw t3, 64(s0)", "addi s0, s0, 4", "blt s0, s1, loop", "ret"), MaxSteps: 40},
		{ID: "gen:call", Prog: asm("jal ra, f", "addi t3, t2, 1", "ret", "f:", "add t2, t0, t1", "jalr zero, ra, 0"), MaxSteps: 16},
		{ID: "gen:jalr-abs", Prog: asm("jalr t5, s0, 4", "li t2, 1", "li t3, 2", "li t4, 3", "ret"), Init: "s0=8", MaxSteps: 16},
		{ID: "gen:muldiv", Prog: asm("mul t2, t0, t1", "div t3, t0, t1", "rem t4, t0, t1", "add t5, t3, t4", "ret")},
		{ID: "gen:subword", Prog: asm("lb t2, 5(zero)", "lh t3, 6(zero)", "sb t0, 65(zero)", "sh t1, 66, zero", "lw t4, 64(zero)", "ret")},
		{ID: "gen:zero-reg", Prog: asm("add zero, t0, t1", "addi t2, zero, 5", "lw zero, 8(zero)", "sw zero, 64(zero)", "mv t3, zero", "ret")},
		{ID: "gen:fall-off", Prog: asm("li t0, 5", "addi t1, t0, 1")},
		{ID: "gen:fall-off-store", Prog: asm("add t2, t0, t1", "sw t2, 64(zero)")},
		{ID: "gen:nop-only", Prog: asm("nop", "nop", "ret")},
		{ID: "gen:neg-values", Prog: asm("li t0, -1", "li t1, 0", "addi t2, t0, -5", "sub t3, t1, t0", "sw t0, 64(zero)", "lw t4, 64(zero)", "ret")},
		// the repository's own programs at small sizes, data symbolic
		{ID: "repo:array-sum", Prog: "@res/array-sum.asm", Init: "a0=0,a1=3", MaxSteps: 64},
		{ID: "repo:string-length", Prog: "@res/string-length.asm", Init: "a0=4", SymMem: "4-6", MaxSteps: 64},
		{ID: "repo:string-copy", Prog: "@res/string-copy.asm", Init: "a0=64,a1=4,a2=3", SymMem: "4-6", MaxSteps: 96},
		{ID: "repo:bubble-sort", Prog: "@res/bubble-sort.asm", Init: "a0=0,a1=3", MaxSteps: 200},
		{ID: "repo:conditional-branch", Prog: "@res/conditional-branch.asm", MaxSteps: 16},
		{ID: "repo:spectre", Prog: "@res/spectre.asm", MaxSteps: 16},
	}
}

// errorPrograms reach an ISA-defined error: Run must return an error value.
func familyErrors() []Skeleton {
	return []Skeleton{
		{ID: "err:div0", Prog: asm("li t1, 0", "div t2, t0, t1", "ret")},
		{ID: "err:rem0", Prog: asm("li t1, 0", "rem t2, t0, t1", "ret")},
		{ID: "err:div0-dd", Prog: asm("add t3, t0, t0", "div t2, t0, t1", "sw t2, 64(zero)", "ret")},
		{ID: "err:label", Prog: asm("li t1, 1", "j nowhere", "ret")},
		{ID: "err:label-branch", Prog: asm("beq t0, t1, nowhere", "li t2, 1", "ret")},
		{ID: "err:div0-late", Prog: asm("lw t3, 8(zero)", "sw t0, 64(zero)", "add t4, t0, t1", "rem t2, t4, zero", "ret")},
	}
}

// ---------------------------------------------------------------------------
// Additions made after the first round of seeded changes (DESIGN §8): shapes
// the first families did not contain. They are appended after the fixed
// samples so that the keys of the earlier skeletons do not move.
// ---------------------------------------------------------------------------

func nops(n int, reg string) []string {
	var out []string
	for i := 0; i < n; i++ {
		out = append(out, "addi "+reg+", "+reg+", 1")
	}
	return out
}

// extraShadows: fetch-pair alignment of branch+jump, jump targets beyond the
// landing point, and a taken branch near the end of a program longer than one
// instruction-cache line whose target lies in a line not fetched yet.
func extraShadows() []Skeleton {
	var out []Skeleton
	for lead := 0; lead <= 2; lead++ {
		for _, br := range [][2]string{{"beqz-raw", "beqz s0, land"}, {"beq-zero", "beq zero, zero, land"}} {
			for _, sh := range [][2]string{{"jal-ra", "jal ra, beyond"}, {"j", "j beyond"}, {"jal-far", "jal t5, far"}} {
				l := []string{"li s0, 0"}
				l = append(l, nops(lead, "s1")...)
				l = append(l, br[1], sh[1], "li s5, 9", "add s9, t3, zero", "ret",
					"far:", "li s6, 5", "land:", "add s7, t3, t4", "lw s8, 136(zero)", "add s9, s8, zero", "ret",
					"beyond:", "li s10, 7", "add s11, s10, zero", "ret")
				out = append(out, Skeleton{ID: fmt.Sprintf("shadow2:%s:%s:lead%d", br[0], sh[0], lead), Prog: asm(l...)})
			}
		}
	}
	// a load-fed taken branch with a jump in its shadow whose target is above / below the branch target
	out = append(out, Skeleton{ID: "shadow2:ld-branch:j-above", Prog: asm("lw t0, 72(zero)", "sub t0, t0, t0", "beqz t0, land", "j above", "li s5, 9", "ret",
		"land:", "li s6, 1", "add s7, s6, t1", "mid:", "addi s7, s7, 1", "above:", "addi s8, s7, 2", "add s9, s8, zero", "ret")})
	out = append(out, Skeleton{ID: "shadow2:ld-branch:j-below", Prog: asm("lw t0, 72(zero)", "sub t0, t0, t0", "j start", "below:", "li s10, 3", "ret", "start:", "beqz t0, land", "j below", "li s5, 9", "ret",
		"land:", "li s6, 1", "add s7, s6, t1", "add s9, s7, zero", "ret")})
	out = append(out, Skeleton{ID: "shadow2:ld-beqz-dd:j-above", Prog: asm("lw t0, 72(zero)", "beqz t0, land", "j above", "li s5, 9", "ret",
		"land:", "li s6, 1", "add s7, s6, t1", "mid:", "addi s7, s7, 1", "above:", "addi s8, s7, 2", "add s9, s8, zero", "ret")})
	out = append(out, Skeleton{ID: "shadow2:ld-beqz-dd:jal-above", Prog: asm("lw t0, 0(zero)", "beqz t0, land", "jal ra, above", "li s5, 9", "ret",
		"land:", "li s6, 1", "add s7, s6, t1", "addi s7, s7, 1", "above:", "addi s8, s7, 2", "add s9, s8, zero", "ret")})
	// program longer than one 16-instruction I-cache line; the branch sits 1-3 instructions before the end and jumps back into a line never fetched
	for tail := 0; tail <= 2; tail++ {
		l := []string{"j A"}
		l = append(l, nops(16, "s1")...)
		l = append(l, "B:", "li s6, 5", "add s7, s6, t0", "sw s7, 64(zero)", "lw s8, 64(zero)", "add s9, s8, zero", "ret")
		l = append(l, nops(10, "s1")...)
		l = append(l, "A:", "li s5, 1", "beq zero, zero, B")
		l = append(l, nops(tail, "s2")...)
		out = append(out, Skeleton{ID: fmt.Sprintf("shadow2:branch-at-end:tail%d", tail), Prog: asm(l...), MaxSteps: 64})
	}
	return out
}

// extraMemDeps: write-buffer triples (an older store miss keeps the write unit
// busy while a second store waits on the bus and a load of its address
// follows), and load->store through independent address registers on a line
// that is already cached at every level.
func extraMemDeps() []Skeleton {
	var out []Skeleton
	for d := 1; d <= 2; d++ {
		for _, w := range []string{"cold", "warm"} {
			pre := []string{}
			if w == "warm" {
				pre = []string{"lw t6, 16(zero)", "add a7, t6, zero"}
			}
			mk := func(id string, init string, lines ...string) {
				l := append(append([]string{}, pre...), lines[:len(lines)-1]...)
				l = append(l, fillers(d-1)...)
				l = append(l, lines[len(lines)-1])
				out = append(out, Skeleton{ID: fmt.Sprintf("%s:%s:d%d", id, w, d), Prog: asm(l...), Init: init})
			}
			mk("wb:st-st-ld", "", "sw t0, 136(zero)", "sw t1, 8(zero)", "lw t3, 8(zero)")
			mk("wb:st-st-ld-sameline", "", "sw t0, 12(zero)", "sw t1, 8(zero)", "lw t3, 8(zero)")
			mk("wb:st-st-st", "", "sw t0, 136(zero)", "sw t1, 8(zero)", "sw t2, 8(zero)")
			mk("ld-st:regs", "s0=8,s1=8", "lw t3, 0(s0)", "sw t0, 0(s1)")
			mk("ld-ld-st:regs", "s0=8,s1=8,s2=12", "lw t3, 0(s0)", "lw t4, 0(s2)", "sw t0, 0(s1)")
			mk("st-ld-other-st-ld", "s0=8,s1=8", "sw t0, 0(s0)", "lw t3, 72(zero)", "lw t4, 0(s1)")
		}
	}
	// the line is brought in by a load of its FIRST byte (MVP-3..6 key a line by the first missing address), then pairs inside it
	for d := 1; d <= 3; d++ {
		pre := []string{"lw t6, 64(zero)", "add a7, t6, zero"}
		mk := func(id string, lines ...string) {
			l := append(append([]string{}, pre...), lines[0])
			l = append(l, fillers(d-1)...)
			l = append(l, lines[1:]...)
			out = append(out, Skeleton{ID: fmt.Sprintf("%s:warm0:d%d", id, d), Prog: asm(l...), Init: "s0=72,s1=72,s2=64"})
		}
		mk("ld-st:regs", "lw t3, 0(s0)", "sw t0, 0(s1)")
		mk("st-ld:regs", "sw t0, 0(s0)", "lw t3, 0(s1)")
		mk("st-st:regs", "sw t0, 0(s0)", "sw t1, 0(s1)")
		mk("ld-st:abs", "lw t3, 72(zero)", "sw t0, 72(zero)")
		mk("ld-st:off", "lw t3, 8(s2)", "sw t0, 0(s1)")
	}
	return withSync(out, "t3", "t4", "t5", "t6")
}

// extraDeps: WAR behind a forwarded consumer, link-register dependences.
func extraDeps() []Skeleton {
	out := []Skeleton{
		{ID: "dep+:war-fwd", Prog: asm("lw t0, 8(zero)", "add t1, t0, t2", "li t2, 7", "add t3, t1, t2", "ret")},
		{ID: "dep+:war-fwd2", Prog: asm("lw t0, 8(zero)", "add t1, t2, t0", "add t2, t0, t0", "sub t3, t1, t2", "ret")},
		{ID: "dep+:waw-li-li-use", Prog: asm("li t0, 1", "li t0, 2", "add t1, t0, t0", "ret")},
		{ID: "dep+:jal-link-use", Prog: asm("jal t0, next", "nop", "next:", "addi t4, t0, 0", "add t1, t4, t0", "ret")},
		{ID: "dep+:jalr-link-use", Prog: asm("jalr t0, s0, 8", "nop", "addi t4, t0, 0", "add t1, t4, t0", "ret"), Init: "s0=0"},
		{ID: "dep+:raw-after-store", Prog: asm("sw t0, 128(zero)", "add t0, t1, t2", "add t3, t0, t0", "sw t3, 132(zero)", "ret")},
	}
	return withSync(out, "t0", "t1", "t2", "t3")
}

// extraGeneral: indirect returns from two call sites (stale branch-target
// entries), rename-ring wrap-around before a load-fed branch, upper-half L3 data.
func extraGeneral() []Skeleton {
	ring := []string{"li t0, 0"}
	ring = append(ring, nops(10, "t0")...)
	ring = append(ring, "lw t1, 8(zero)", "beqz t1, L", "addi t0, t0, 100", "L:", "add a3, t0, zero", "ret")
	ring9 := []string{"li t0, 0"}
	ring9 = append(ring9, nops(9, "t0")...)
	ring9 = append(ring9, "lw t1, 8(zero)", "beqz t1, L", "addi t0, t0, 100", "L:", "add a3, t0, zero", "ret")
	return []Skeleton{
		{ID: "gen+:two-call-sites", Prog: asm("li a1, 0", "jal ra, f", "addi a1, a0, 10", "jal ra, f", "addi a2, a0, 20", "ret", "f:", "addi s1, s1, 1", "mv a0, s1", "jalr zero, ra, 0"), Init: "s1=0", MaxSteps: 32},
		{ID: "gen+:ring10-branch", Prog: asm(ring...), MaxSteps: 32},
		{ID: "gen+:ring9-branch", Prog: asm(ring9...), MaxSteps: 32},
		{ID: "gen+:loop-store", Prog: asm("li s0, 0", "li s1, 8", "loop:", "sw t0, 64(s0)", "addi s0, s0, 4", "blt s0, s1, loop", "lw t3, 64(zero)", "lw t4, 68(zero)", "add a3, t3, t4", "ret"), MaxSteps: 32},
	}
}

// extraCache: double miss on one address before a store, the last line and
// last byte of memory, upper half of an L3 line under L3 eviction.
func extraCache() []Skeleton {
	out := []Skeleton{
		{ID: "cache+:double-load-store", Prog: asm("lw t3, 128(zero)", "lw t4, 128(zero)", "add t5, t3, t4", "sw t0, 128(zero)", "lw t6, 132(zero)", "ret")},
		{ID: "cache+:last-line", Prog: asm("lb t3, 255(zero)", "sw t0, 192(zero)", "lb t4, 254(zero)", "lw t5, 252(zero)", "ret")},
		{ID: "cache+:last-byte-store", Prog: asm("lw t3, 200(zero)", "sb t0, 255(zero)", "lb t4, 255(zero)", "lw t5, 252(zero)", "ret")},
		{ID: "cache+:first-and-last", Prog: asm("lw t3, 0(zero)", "sw t0, 252(zero)", "lw t4, 252(zero)", "sw t1, 0(zero)", "lw t5, 0(zero)", "ret")},
	}
	return withSync(out, "t3", "t4", "t5", "t6")
}

// familyEvictionUpper: as familyEviction, but the dirty data sits in the upper
// half of a 128-byte L3 line (offset 64+).
func familyEvictionUpper(n, stride int, id string) Skeleton {
	var l []string
	l = append(l, "lw t3, 64(zero)", "sw t0, 68(zero)", "sw t1, 64(zero)")
	for i := 1; i <= n; i++ {
		l = append(l, fmt.Sprintf("lw t4, %d(zero)", i*stride))
	}
	l = append(l, "lw t5, 68(zero)", "lw t6, 64(zero)")
	l = append(l, syncTail("t3", "t4", "t5", "t6")...)
	l = append(l, "ret")
	return Skeleton{ID: id, Prog: asm(l...), Mem: (n + 2) * stride, SymMem: "64-80", MaxSteps: n + 16}
}

// extraCoherence: shapes in which a line changes owner while speculative or
// dependent accesses to it are in flight on other cores.
func extraCoherence() []Skeleton {
	return []Skeleton{
		{ID: "coh:spec-load-of-modified-line", Prog: asm("sw t1, 64(zero)", "lw t3, 0(zero)", "addi t4, t3, 0", "lw t5, 128(t3)", "addi t6, t5, 0", "beqz a5, skip", "lw t2, 64(zero)", "skip:", "sw t1, 68(zero)", "ret"), SymMem: "64-72"},
		{ID: "coh:ld-branch-shadow-store", Prog: asm("lw t0, 0(zero)", "beq t0, zero, end", "sw t1, 64(zero)", "end:", "ret")},
		{ID: "coh:ld-branch-shadow-store2", Prog: asm("lw t0, 0(zero)", "beq t0, zero, end", "sw t1, 64(zero)", "sw t2, 128(zero)", "end:", "lw t3, 64(zero)", "add a3, t3, zero", "ret")},
		{ID: "coh:shared-readers", Prog: asm("lw t0, 0(zero)", "lw t1, 4(zero)", "add t2, t0, t1", "sw t2, 64(zero)", "sw t2, 128(zero)", "lw t3, 68(zero)", "lw t4, 132(zero)", "add t5, t3, t4",
			"lw a0, 8(zero)", "lw a1, 12(zero)", "add a2, a0, a1", "lw a3, 16(zero)", "add a2, a2, a3", "lw a4, 20(zero)", "add a2, a2, a4", "ret"), MaxSteps: 32},
		{ID: "coh:sh-bytes", Prog: asm("sh t0, 8, zero", "sh t1, 10, zero", "sh t2, 72, zero", "sh t0, 74, zero", "lw t3, 8(zero)", "lw t4, 72(zero)", "add a3, t3, t4", "ret")},
	}
}

// extraControl: indirect jumps that are forwarded on one visit and not on
// another, long forward jumps over several instruction-cache windows.
func extraControl() []Skeleton {
	long := []string{"li t0, 1", "j skip"}
	long = append(long, nops(70, "s1")...)
	long = append(long, "skip:", "addi t1, t0, 1", "ret")
	back := []string{"j start", "target:", "addi t1, t0, 1", "ret"}
	back = append(back, nops(40, "s1")...)
	back = append(back, "start:", "li t0, 1", "j target")
	return []Skeleton{
		{ID: "ctl:jalr-fwd-then-not", Prog: asm("addi t0, zero, 20", "j X", "P:", "addi t0, zero, 32", "X:", "jalr zero, t0, 0", "nop", "A:", "addi t1, t1, 1", "j P", "nop", "B:", "addi t2, t2, 1", "ret"), MaxSteps: 32},
		{ID: "ctl:long-forward-jump", Prog: asm(long...), MaxSteps: 16},
		{ID: "ctl:long-backward-jump", Prog: asm(back...), MaxSteps: 16},
	}
}

// familyEvictionChain: a store miss to base+off, then n serialised loads
// (each followed by a dependent add) of distinct 128-byte lines, then a reload:
// the dirty L1 line is written back to L3 and the L3 line is evicted later.
func familyEvictionChain(n, off int, id string) Skeleton {
	base := 1024
	l := []string{fmt.Sprintf("sw t0, %d(zero)", base+off)}
	for j := 0; j < n; j++ {
		l = append(l, fmt.Sprintf("lw t1, %d(zero)", 2048+128*j), "add t2, t2, t1")
	}
	l = append(l, fmt.Sprintf("lw t3, %d(zero)", base+off), "add t4, t3, zero", "ret")
	return Skeleton{ID: id, Prog: asm(l...), Mem: 2048 + 128*(n+2), SymMem: fmt.Sprintf("%d-%d", base+off, base+off+8), MaxSteps: 2*n + 16}
}

// extraTails: a load-fed branch whose fall-through path is a ret.
func extraTails() []Skeleton {
	return []Skeleton{
		{ID: "tail+:lw-branch-ret", Prog: asm("lw t0, 72(zero)", "beqz t0, L", "ret", "L:", "addi t3, t0, 1", "ret")},
		{ID: "tail+:lw-branch-ret-warm", Prog: asm("lw t6, 80(zero)", "add a7, t6, zero", "lw t0, 72(zero)", "beqz t0, L", "ret", "L:", "addi t3, t0, 1", "ret")},
		{ID: "tail+:sw-sw-sameline-end", Prog: asm("sw t0, 72(zero)", "sw t1, 76(zero)", "sw t2, 80(zero)")},
		{ID: "tail+:sw-sw-sw-ret", Prog: asm("sw t0, 72(zero)", "sw t1, 76(zero)", "sw t2, 136(zero)", "ret")},
	}
}
