package drive

import (
	"fmt"
	"strings"
)

func init() { builders["C02"] = specC02 }

var c02R3 = []string{"add", "sub", "and", "or", "xor", "mul", "div", "rem", "sll", "srl", "sra", "slt", "sltu"}
var c02I = []string{"addi", "andi", "ori", "xori", "slti", "slli", "srli", "srai", "mv", "jalr", "lb", "lh", "lw", "sb", "sh", "sw"}
var c02U = []string{"li", "lui", "auipc", "jal"}
var c02B2 = []string{"beq", "bne", "blt", "bge", "ble", "bltu", "bgeu"}
var c02B1 = []string{"beqz", "bnez"}
var c02None = []string{"j", "nop", "ret"}

var c02names = []string{"zero", "ra", "t0", "t1", "t2"}

func tuples(k int, all bool, canon [][]string) [][]string {
	if !all {
		return canon
	}
	var out [][]string
	var rec func(cur []string)
	rec = func(cur []string) {
		if len(cur) == k {
			out = append(out, append([]string(nil), cur...))
			return
		}
		for _, n := range c02names {
			rec(append(cur, n))
		}
	}
	rec(nil)
	return out
}

func specC02(l *Loaded, tier string, seed int64) (*Spec, error) {
	all := true // all 5^k register-name tuples in both tiers (7 s); the thorough tier adds the second solver (run.sh)
	_ = tier
	canon3 := [][]string{{"t2", "t0", "t1"}, {"t0", "t0", "t1"}, {"t1", "t0", "t1"}, {"t2", "t0", "t0"}, {"t0", "t0", "t0"},
		{"zero", "t0", "t1"}, {"t2", "zero", "t1"}, {"t2", "t0", "zero"}, {"ra", "t1", "t0"}}
	canon2 := [][]string{{"t2", "t0"}, {"t0", "t0"}, {"zero", "t0"}, {"t2", "zero"}, {"ra", "t1"}, {"t1", "ra"}}
	canon1 := [][]string{{"t2"}, {"zero"}, {"ra"}, {"t0"}}
	var jobs []*Job
	add := func(op string, pats [][]string, extra map[string]string) {
		for _, rat := range []string{"0", "1"} {
			for _, p := range pats {
				params := map[string]string{"op": op, "regs": strings.Join(p, ","), "rat": rat, "nolabel": "0", "via": "struct"}
				key := fmt.Sprintf("%s|%s|rat%s", op, strings.Join(p, "."), rat)
				for k, v := range extra {
					params[k] = v
					if v == "1" {
						key += "|" + k
					}
				}
				jobs = append(jobs, &Job{Pkg: "risc", Fn: "VerifC02", Key: key, Params: params, Covers: []string{"end"}, MaxPaths: 64})
			}
		}
	}
	for _, op := range c02R3 {
		add(op, tuples(3, all, canon3), nil)
	}
	for _, op := range c02I {
		add(op, tuples(2, all, canon2), nil)
	}
	for _, op := range c02U {
		add(op, tuples(1, all, canon1), nil)
		if op == "jal" {
			add(op, [][]string{{"t2"}}, map[string]string{"nolabel": "1"})
		}
	}
	for _, op := range c02B2 {
		add(op, tuples(2, all, canon2), nil)
		add(op, [][]string{{"t0", "t1"}}, map[string]string{"nolabel": "1"})
	}
	for _, op := range c02B1 {
		add(op, tuples(1, all, canon1), nil)
		add(op, [][]string{{"t0"}}, map[string]string{"nolabel": "1"})
	}
	for _, op := range c02None {
		add(op, [][]string{{}}, nil)
		if op == "j" {
			add(op, [][]string{{}}, map[string]string{"nolabel": "1"})
		}
	}
	jobs = append(jobs, c02ParseJobs("parse")...)
	return &Spec{Jobs: jobs,
		Rule: "one job per (mnemonic, register-name pattern over {zero,ra,t0,t1,t2}, rename-table on/off); inside a job the four register values, the immediate/offset, pc, the branch target and the loaded bytes are SMT variables, the real op.Run/ReadRegisters/WriteRegisters/MemoryRead/MemoryWrite are executed symbolically and compared with the RV32IM definition written in the harness",
		Bounds: map[string]interface{}{"mnemonics": 45, "register_names": c02names, "patterns": "all 5^k name tuples (both tiers)",
			"operand_values": "all 2^32 per register, immediate, offset; pc and branch target any multiple of 4 in [0,2^20)", "shift_immediates": "0..31 (assumed, the assembler's contract)"},
		Assumptions: []string{"shift immediates are in 0..31", "pc and label targets are multiples of 4 in [0, 2^20)", "the code is uniform in the register name except for zero and ra (only 5 of the 32 names are used)",
			"division by zero must be reported as an error value (the reading C07 gives), both for div and rem", "jalr target is rs+imm (bit 0 not cleared: the simulator has no misaligned-pc notion; not demanded)"},
		Outside: []string{"register names other than zero, ra, t0, t1, t2", "forwarded operands and non-zero sequence ids (C04, C15)", "debug=true"},
	}, nil
}

// c02ParseJobs: the same harness with the op obtained from risc.Parse on the
// assembly text (decoding of operands, immediates, and pc accounting).
func c02ParseJobs(prefix string) []*Job {
	var jobs []*Job
	add := func(op string, regs []string) {
		jobs = append(jobs, &Job{Pkg: "risc", Fn: "VerifC02", Key: prefix + "|" + op + "|" + strings.Join(regs, "."),
			Params: map[string]string{"op": op, "regs": strings.Join(regs, ","), "rat": "0", "nolabel": "0", "via": "parse"}, Covers: []string{"end"}, MaxPaths: 256, MaxConc: 8})
	}
	for _, op := range c02R3 {
		add(op, []string{"t2", "t0", "t1"})
		add(op, []string{"ra", "t1", "zero"})
	}
	for _, op := range c02I {
		add(op, []string{"t2", "t0"})
		add(op, []string{"t1", "ra"})
	}
	for _, op := range c02U {
		add(op, []string{"t2"})
	}
	for _, op := range c02B2 {
		add(op, []string{"t0", "t1"})
		add(op, []string{"t2", "zero"})
	}
	for _, op := range c02B1 {
		add(op, []string{"t0"})
	}
	for _, op := range c02None {
		add(op, nil)
	}
	return jobs
}
