package drive

import (
	"bufio"
	"encoding/json"
	"fmt"
	"os"
	"path/filepath"
	"sort"
	"strings"
	"sync"
	"time"
)

type Known struct {
	Status   string `json:"status"` // known | fixed
	Property string `json:"property"`
	Key      string `json:"key"`
	What     string `json:"what"`
	Commit   string `json:"commit,omitempty"`
}

func LoadKnown(path string) (map[string]Known, error) {
	m := map[string]Known{}
	f, err := os.Open(path)
	if err != nil {
		if os.IsNotExist(err) {
			return m, nil
		}
		return nil, err
	}
	defer f.Close()
	sc := bufio.NewScanner(f)
	sc.Buffer(make([]byte, 1<<20), 1<<20)
	for sc.Scan() {
		l := strings.TrimSpace(sc.Text())
		if l == "" || strings.HasPrefix(l, "#") || strings.HasPrefix(l, "//") {
			continue
		}
		var k Known
		if err := json.Unmarshal([]byte(l), &k); err != nil {
			return nil, fmt.Errorf("known findings: %v in %q", err, l)
		}
		if k.Status == "known" {
			m[k.Key] = k
		}
	}
	return m, sc.Err()
}

// Spec describes one property check: how jobs are generated and what the
// evidence says about it.
type Spec struct {
	Prop        string
	Tier        string
	Seed        int64
	Jobs        []*Job
	Filter      func(kind, label string) bool // which findings belong to this property (nil: all)
	Rule        string
	Bounds      map[string]interface{}
	Assumptions []string
	Outside     []string
	Extra       map[string]interface{}
}

type Options struct {
	VerifDir string
	Workers  int
	Solver   string
	Timeout  int
	Verbose  bool
	Propose  bool
	Cross    bool // cross-check assertion verdicts one-shot with other solvers
}

type candidate struct {
	c       *Case
	res     *JobResult
	f       Finding
	outcome ReplayOutcome
	file    string
}

// RunCheck runs the spec and returns the process exit code.
func RunCheck(l *Loaded, spec *Spec, opt Options) int {
	t0 := time.Now()
	known, err := LoadKnown(filepath.Join(opt.VerifDir, "known_findings.jsonl"))
	if err != nil {
		fmt.Println("machinery error:", err)
		return 2
	}
	pool := &Pool{L: l, Workers: opt.Workers, Solver: opt.Solver, Timeout: opt.Timeout, Verbose: opt.Verbose}
	results := pool.Run(spec.Jobs)

	scratch := filepath.Join(opt.VerifDir, ".scratch", fmt.Sprintf("%s-%d", spec.Prop, os.Getpid()))
	os.MkdirAll(scratch, 0o755)
	defer os.RemoveAll(scratch)
	rp := NewReplayer(l, scratch)
	replayDir := filepath.Join(opt.VerifDir, "replay")
	os.MkdirAll(replayDir, 0o755)

	var cands []*candidate
	for _, r := range results {
		for _, f := range r.Findings {
			if spec.Filter != nil && !spec.Filter(f.Kind, f.Label) {
				continue
			}
			key := spec.Prop + "|" + r.Job.Key + "|" + f.Kind + "|" + f.Label
			c := &Case{Property: spec.Prop, Key: key, Pkg: r.Job.Pkg, Fn: r.Job.Fn, Params: r.Job.Params,
				Vals: ToVals(f.Model), Kind: f.Kind, Label: f.Label, Where: f.Where}
			cands = append(cands, &candidate{c: c, res: r, f: f})
		}
	}
	// native replay, in parallel
	var wg sync.WaitGroup
	sem := make(chan struct{}, opt.Workers)
	for _, cd := range cands {
		wg.Add(1)
		go func(cd *candidate) {
			defer wg.Done()
			sem <- struct{}{}
			defer func() { <-sem }()
			cd.file = filepath.Join(scratch, safeName(cd.c.Key)+".json")
			b, _ := json.MarshalIndent(cd.c, "", " ")
			os.WriteFile(cd.file, b, 0o644)
			cd.outcome = rp.Run(cd.c, cd.file)
		}(cd)
	}
	wg.Wait()

	violations := 0
	var knownHit, unconfirmed []string
	var vioSamples []interface{}
	seenKnown := map[string]bool{}
	sort.Slice(cands, func(i, j int) bool { return cands[i].c.Key < cands[j].c.Key })
	for _, cd := range cands {
		if !cd.outcome.Reproduced {
			unconfirmed = append(unconfirmed, cd.c.Key+" :: "+cd.outcome.Detail)
			fmt.Printf("unconfirmed (engine counterexample does not reproduce natively; not reported): %s :: %s\n", cd.c.Key, cd.outcome.Detail)
			if opt.Verbose {
				fmt.Printf("  model=%s\n  native output: %s\n", fmtModel(cd.c.Vals), tail(cd.outcome.Output, 600))
			}
			if opt.Propose {
				if _, listed := known[cd.c.Key]; !listed {
					pk, _ := json.Marshal(Known{Status: "known", Property: spec.Prop, Key: cd.c.Key, What: "UNCONFIRMED-AT-RECORDING"})
					fmt.Printf("PROPOSE %s\n", pk)
				}
			}
			continue
		}
		if k, ok := known[cd.c.Key]; ok {
			if !seenKnown[cd.c.Key] {
				seenKnown[cd.c.Key] = true
				fmt.Printf("KNOWN-FINDING: property=%s %s %s\n", spec.Prop, cd.c.Key, k.What)
				knownHit = append(knownHit, cd.c.Key)
			}
			continue
		}
		violations++
		cd.c.What = cd.outcome.Detail
		path := filepath.Join(replayDir, safeName(cd.c.Key)+".json")
		b, _ := json.MarshalIndent(cd.c, "", " ")
		os.WriteFile(path, b, 0o644)
		fmt.Printf("VIOLATION property=%s replay=%s\n", spec.Prop, path)
		fmt.Printf("  key=%s\n  %s\n  model=%s\n", cd.c.Key, cd.outcome.Detail, fmtModel(cd.c.Vals))
		if opt.Propose {
			pk, _ := json.Marshal(Known{Status: "known", Property: spec.Prop, Key: cd.c.Key, What: cd.outcome.Detail})
			fmt.Printf("PROPOSE %s\n", pk)
		}
		if len(vioSamples) < 5 {
			vioSamples = append(vioSamples, map[string]interface{}{"key": cd.c.Key, "detail": cd.outcome.Detail, "model": cd.c.Vals})
		}
	}

	// vacuity: required cover points
	var vacuous []string
	for _, r := range results {
		aborted := false
		for _, f := range r.Findings {
			if f.Kind == "hang" || f.Kind == "panic" {
				aborted = true // the run ended in a reported finding: later cover points are legitimately unreached
			}
		}
		for _, cv := range r.Job.Covers {
			if r.Covers[cv] == 0 && !aborted {
				vacuous = append(vacuous, r.Job.Key+": cover point "+cv+" not reached")
			}
		}
	}

	ev := buildEvidence(l, spec, results, rp, knownHit, unconfirmed, vacuous, vioSamples, violations, opt, time.Since(t0))
	os.MkdirAll(filepath.Join(opt.VerifDir, "evidence"), 0o755)
	b, _ := json.MarshalIndent(ev, "", " ")
	if err := os.WriteFile(filepath.Join(opt.VerifDir, "evidence", spec.Prop+".json"), b, 0o644); err != nil {
		fmt.Println("machinery error:", err)
		return 2
	}
	cov := ev["coverage"].(map[string]interface{})
	fmt.Printf("%s %s: jobs=%d paths=%d queries=%d obligations(sym)=%d solver=%.1fs known=%d unconfirmed=%d inconclusive=%d vacuous=%d violations=%d wall=%.1fs\n",
		spec.Prop, spec.Tier, len(spec.Jobs), cov["states"], cov["evaluations"], cov["assertions_decided_by_solver"], cov["solver_s"], len(knownHit), len(unconfirmed), cov["inconclusive_count"], len(vacuous), violations, time.Since(t0).Seconds())
	if opt.Verbose {
		for _, s := range cov["inconclusive"].([]string) {
			fmt.Println("  inconclusive:", s)
		}
		for _, s := range vacuous {
			fmt.Println("  vacuous:", s)
		}
	}
	if violations > 0 {
		return 1
	}
	return 0
}

func safeName(s string) string {
	var sb strings.Builder
	for _, c := range s {
		if c >= 'a' && c <= 'z' || c >= 'A' && c <= 'Z' || c >= '0' && c <= '9' || c == '-' || c == '.' || c == '_' {
			sb.WriteRune(c)
		} else {
			sb.WriteRune('_')
		}
	}
	r := sb.String()
	if len(r) > 180 {
		r = r[:180]
	}
	return r
}

func fmtModel(m map[string]int64) string {
	var ks []string
	for k := range m {
		ks = append(ks, k)
	}
	sort.Strings(ks)
	var sb strings.Builder
	n := 0
	for _, k := range ks {
		if m[k] == 0 {
			continue
		}
		if n >= 24 {
			sb.WriteString("…")
			break
		}
		fmt.Fprintf(&sb, "%s=%#x ", strings.TrimPrefix(k, "v_"), uint64(m[k]))
		n++
	}
	return sb.String()
}

func buildEvidence(l *Loaded, spec *Spec, results []*JobResult, rp *Replayer, knownHit, unconfirmed, vacuous []string,
	vioSamples []interface{}, violations int, opt Options, wall time.Duration) map[string]interface{} {
	paths, queries, symAsserts, asserts, dead, pathsA := 0, 0, 0, 0, 0, 0
	var steps int64
	forks, merges := 0, 0
	solverS := 0.0
	funcs := map[string]bool{}
	var inconcl []string
	incomplete := false
	var samples []interface{}
	for _, r := range results {
		paths += r.Paths
		dead += r.Dead
		queries += r.Queries
		symAsserts += r.SymAsserts
		pathsA += r.PathsWithAsserts
		asserts += r.Asserts
		steps += r.Steps
		forks += r.Forks
		merges += r.Merges
		solverS += r.SolverTime.Seconds()
		for f := range r.Funcs {
			if strings.Contains(f, "majorana") && !strings.Contains(f, "verifvp") {
				funcs[strings.ReplaceAll(f, ModPath+"/", "")] = true
			}
		}
		for _, s := range r.Inconcl {
			inconcl = append(inconcl, r.Job.Key+": "+s)
		}
		if r.Incomplete {
			incomplete = true
		}
	}
	// samples: a few jobs written out
	step := len(results)/6 + 1
	for i := 0; i < len(results); i += step {
		r := results[i]
		fl := []string{}
		for _, f := range r.Findings {
			fl = append(fl, f.Kind+"|"+f.Label)
		}
		samples = append(samples, map[string]interface{}{"job": r.Job.Key, "harness": r.Job.Pkg + "." + r.Job.Fn, "params": r.Job.Params,
			"symbolic_inputs": r.Vars, "paths": r.Paths, "ssa_steps": r.Steps, "queries": r.Queries, "assertions": r.Asserts,
			"assertions_decided_by_solver": r.SymAsserts, "findings": fl, "note": r.Job.Note})
	}
	samples = append(samples, vioSamples...)
	var fl []string
	for f := range funcs {
		fl = append(fl, f)
	}
	sort.Strings(fl)
	sort.Strings(inconcl)
	if inconcl == nil {
		inconcl = []string{}
	}
	cov := map[string]interface{}{
		"evaluations":                   queries,
		"distinct_nontrivial":           pathsA,
		"assertions_decided_by_solver":  symAsserts,
		"rule":                          spec.Rule + " | evaluations = SMT queries discharged (feasibility of branch sides, panic-freedom and assertion queries); distinct_nontrivial = distinct symbolic paths (each a different decision prefix, i.e. a different class of inputs/histories, covering all values of its symbolic inputs) on which at least one assertion of the property was evaluated; assertions_decided_by_solver = assertion obligations whose negation was a genuinely symbolic formula sent to the solver (the others were reduced to true by the fuzz-tested term canonicaliser, e.g. identical slices on both sides)",
		"samples":                       samples,
		"states":                        paths,
		"transitions":                   forks + merges,
		"traces_validated_against_impl": rp.Runs,
		"jobs":                          len(results),
		"paths":                         paths,
		"paths_killed_by_assume":        dead,
		"ssa_steps":                     steps,
		"forks":                         forks,
		"merges":                        merges,
		"assertions":                    asserts,
		"solver_s":                      round2(solverS),
		"solver":                        opt.Solver + " (check-sat-using qfbv, push/pop, one process per worker)",
		"query_timeout_s":               opt.Timeout,
		"functions_encoded":             fl,
		"functions_encoded_count":       len(fl),
		"bounds":                        spec.Bounds,
		"outside_claim":                 spec.Outside,
		"inconclusive":                  inconcl,
		"inconclusive_count":            len(inconcl),
		"unconfirmed":                   unconfirmed,
		"vacuity_failures":              vacuous,
		"known_findings":                knownHit,
		"native_replays":                rp.Runs,
		"native_replay_builds":          rp.Builds,
		"exhaustive":                    !incomplete && len(inconcl) == 0,
		"load_s":                        round2(l.LoadTime.Seconds()),
	}
	for k, v := range spec.Extra {
		cov[k] = v
	}
	// run.sh re-asks every obligation of the cheap unit-level checks with a second
	// solver build in the thorough tier and passes the outcome here.
	if c := os.Getenv("VERIF_CROSS"); c != "" {
		cov["cross_solver"] = c
	}
	return map[string]interface{}{
		"property_id": spec.Prop,
		"tier":        spec.Tier,
		"seed":        spec.Seed,
		"level":       "model_checking",
		"coverage":    cov,
		"assumptions": spec.Assumptions,
		"wall_s":      round2(wall.Seconds()),
		"violations":  violations,
	}
}

func round2(f float64) float64 { return float64(int(f*100+0.5)) / 100 }
