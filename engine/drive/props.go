package drive

import (
	"fmt"
	"strings"
)

type specBuilder func(l *Loaded, tier string, seed int64) (*Spec, error)

var builders = map[string]specBuilder{}

func BuildSpec(l *Loaded, prop, tier string, seed int64, only string) (*Spec, error) {
	b, ok := builders[prop]
	if !ok {
		return nil, fmt.Errorf("no check for property %q", prop)
	}
	s, err := b(l, tier, seed)
	if err != nil {
		return nil, err
	}
	s.Prop, s.Tier, s.Seed = prop, tier, seed
	if only != "" {
		var js []*Job
		for _, j := range s.Jobs {
			if strings.Contains(j.Key, only) {
				js = append(js, j)
			}
		}
		s.Jobs = js
	}
	for _, j := range s.Jobs {
		j.Prop = prop
		if j.Params == nil {
			j.Params = map[string]string{}
		}
	}
	return s, nil
}

func init() {
	builders["C16"] = specC16
}

func specC16(l *Loaded, tier string, seed int64) (*Spec, error) {
	jobs := []*Job{
		{Pkg: "common/bytes", Fn: "VerifC16RoundTrip", Key: "word-roundtrip", RawTerms: true, Covers: []string{"end"},
			Note: "n symbolic int32: I32FromBytes(BytesFromLowBits(n)) == n and byte i == bits 8i..8i+7"},
		{Pkg: "common/bytes", Fn: "VerifC16Bytes", Key: "bytes-roundtrip", RawTerms: true, Covers: []string{"end"},
			Note: "four symbolic int8: BytesFromLowBits(I32FromBytes(q)) == q and the word is the little-endian composition"},
	}
	return &Spec{Jobs: jobs,
		Rule:        "two harnesses over the real common/bytes functions; every bit loop is executed with its constant trip count and its data-dependent diamonds merged into ite terms, so each assertion is one solver query over all 2^32 inputs",
		Bounds:      map[string]interface{}{"input_bits": 32, "loops": "constant trip counts (8, 16, 32) executed completely", "note": "no bound left open: the solver decides all 2^32 words and all 2^32 byte quadruples; quick and thorough are the same check"},
		Assumptions: []string{"z3 4.8.12 bit-blasting (qfbv tactic) is sound", "go/ssa build of /repo's working tree is faithful", "gosym's integer/shift/convert semantics (validated by native replay of every counterexample)"},
	}, nil
}
