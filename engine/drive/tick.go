package drive

func instrumentRunLoops(repo, scratch string) (map[string]string, string, error) {
	return nil, "none yet", nil
}
