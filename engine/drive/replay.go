package drive

import (
	"bytes"
	"context"
	"encoding/json"
	"fmt"
	"os"
	"os/exec"
	"path/filepath"
	"sort"
	"strings"
	"sync"
	"time"
)

// Case is a replayable counterexample: the harness, its concrete parameters
// and the solver's model for its nondet inputs.
type Case struct {
	Property string            `json:"property"`
	Key      string            `json:"key"`
	Pkg      string            `json:"pkg"`
	Fn       string            `json:"fn"`
	Params   map[string]string `json:"params"`
	Vals     map[string]int64  `json:"vals"`
	Kind     string            `json:"kind"`
	Label    string            `json:"label"`
	Where    string            `json:"where,omitempty"`
	What     string            `json:"what,omitempty"`
}

type Replayer struct {
	L       *Loaded
	Scratch string
	Timeout time.Duration
	mu      sync.Mutex
	bins    map[string]string
	errs    map[string]error
	Retries int
	Builds  int
	Runs    int
	BuildS  float64
}

func NewReplayer(l *Loaded, scratch string) *Replayer {
	return &Replayer{L: l, Scratch: scratch, Timeout: 20 * time.Second, Retries: 7, bins: map[string]string{}, errs: map[string]error{}}
}

const replayTestTmpl = `package %s

import (
	"encoding/json"
	"fmt"
	"os"
	"testing"

	vp "github.com/teivah/majorana/verifvp"
)

func TestVerifReplay(t *testing.T) {
	b, err := os.ReadFile(os.Getenv("VERIF_CASE"))
	if err != nil {
		t.Fatal(err)
	}
	var c struct {
		Fn     string
		Params map[string]string
		Vals   map[string]int64
	}
	if err := json.Unmarshal(b, &c); err != nil {
		t.Fatal(err)
	}
	fn := verifHarness[c.Fn]
	if fn == nil {
		t.Fatal("unknown harness " + c.Fn)
	}
	vp.Load(c.Params, c.Vals)
	func() {
		defer func() {
			if r := recover(); r != nil {
				if _, ok := r.(vp.AssumeViolated); ok {
					fmt.Println("VERIF-ASSUME")
				} else {
					fmt.Printf("VERIF-PANIC: %%v\n", r)
				}
			}
		}()
		fn()
	}()
	for _, f := range vp.Failures() {
		fmt.Println("VERIF-FAIL:", f)
	}
	fmt.Println("VERIF-DONE")
}

var verifHarness = map[string]func(){
%s}
`

// binary builds (once per package) the native test binary of pkg with the
// harness overlay and a generated replay test.
func (r *Replayer) binary(pkg string) (string, error) {
	r.mu.Lock()
	defer r.mu.Unlock()
	if b, ok := r.bins[pkg]; ok {
		return b, r.errs[pkg]
	}
	t0 := time.Now()
	sp, ok := r.L.Pkgs[ModPath+"/"+pkg]
	if !ok {
		return "", fmt.Errorf("replay: package %s not loaded", pkg)
	}
	var names []string
	for name, m := range sp.Members {
		if strings.HasPrefix(name, "Verif") {
			if f := sp.Func(name); f != nil && f == m && len(f.Params) == 0 && f.Signature.Results().Len() == 0 {
				names = append(names, name)
			}
		}
	}
	sort.Strings(names)
	var reg strings.Builder
	for _, n := range names {
		fmt.Fprintf(&reg, "\t%q: %s,\n", n, n)
	}
	dir := filepath.Join(r.Scratch, "replay", strings.ReplaceAll(pkg, "/", "_"))
	os.MkdirAll(dir, 0o755)
	testFile := filepath.Join(dir, "zz_verif_replay_test.go")
	src := fmt.Sprintf(replayTestTmpl, sp.Pkg.Name(), reg.String())
	if err := os.WriteFile(testFile, []byte(src), 0o644); err != nil {
		return "", err
	}
	ov := struct{ Replace map[string]string }{Replace: map[string]string{}}
	for v, real := range r.L.OnDisk {
		ov.Replace[v] = real
	}
	ov.Replace[filepath.Join(r.L.Repo, pkg, "zz_verif_replay_test.go")] = testFile
	ovb, _ := json.MarshalIndent(ov, "", " ")
	ovFile := filepath.Join(dir, "overlay.json")
	os.WriteFile(ovFile, ovb, 0o644)
	bin := filepath.Join(dir, "replay.test")
	cmd := exec.Command("go", "test", "-c", "-vet=off", "-overlay", ovFile, "-o", bin, "./"+pkg)
	cmd.Dir = r.L.Repo
	cmd.Env = GoEnv()
	out, err := cmd.CombinedOutput()
	r.Builds++
	r.BuildS += time.Since(t0).Seconds()
	if err != nil {
		err = fmt.Errorf("replay build of %s failed: %v\n%s", pkg, err, out)
	}
	r.bins[pkg] = bin
	r.errs[pkg] = err
	return bin, err
}

type ReplayOutcome struct {
	Reproduced bool
	Detail     string
	Output     string
}

// Run executes the case natively and reports whether the same failure shows.
// A counterexample that does not show at once is retried: the native build
// iterates Go maps in random order, so an order-dependent failure needs
// several attempts (the engine explores one fixed order policy).
func (r *Replayer) Run(c *Case, caseFile string) ReplayOutcome {
	var o ReplayOutcome
	for i := 0; i < 1+r.Retries; i++ {
		o = r.runOnce(c, caseFile)
		if o.Reproduced {
			if i > 0 {
				o.Detail += fmt.Sprintf(" (on native attempt %d: order-dependent)", i+1)
			}
			return o
		}
	}
	return o
}

func (r *Replayer) runOnce(c *Case, caseFile string) ReplayOutcome {
	bin, err := r.binary(c.Pkg)
	if err != nil {
		return ReplayOutcome{Detail: err.Error()}
	}
	ctx, cancel := context.WithTimeout(context.Background(), r.Timeout+10*time.Second)
	defer cancel()
	cmd := exec.CommandContext(ctx, bin, "-test.run", "^TestVerifReplay$", "-test.timeout", r.Timeout.String(), "-test.v")
	cmd.Dir = filepath.Join(r.L.Repo)
	cmd.Env = append(os.Environ(), "VERIF_CASE="+caseFile)
	var buf bytes.Buffer
	cmd.Stdout = &buf
	cmd.Stderr = &buf
	runErr := cmd.Run()
	r.mu.Lock()
	r.Runs++
	r.mu.Unlock()
	out := buf.String()
	o := ReplayOutcome{Output: tail(out, 4000)}
	done := strings.Contains(out, "VERIF-DONE")
	hung := strings.Contains(out, "test timed out") || ctx.Err() != nil || strings.Contains(out, "all goroutines are asleep")
	switch c.Kind {
	case "assert":
		for _, l := range strings.Split(out, "\n") {
			if strings.TrimSpace(l) == "VERIF-FAIL: "+c.Label {
				o.Reproduced = true
				o.Detail = "assertion " + c.Label + " fails natively"
			}
		}
		if !o.Reproduced {
			switch {
			case strings.Contains(out, "VERIF-ASSUME"):
				o.Detail = "assumption violated natively"
			case !done:
				o.Detail = "native run did not complete"
			default:
				o.Detail = "assertion holds natively"
			}
		}
	case "panic":
		for _, l := range strings.Split(out, "\n") {
			if strings.HasPrefix(l, "VERIF-PANIC: ") && !strings.Contains(l, "verif: cycle budget exceeded") {
				o.Reproduced = true
				o.Detail = "native panic: " + strings.TrimPrefix(l, "VERIF-PANIC: ")
			}
		}
		if !o.Reproduced && !done && !hung && runErr != nil && (strings.Contains(out, "panic:") || strings.Contains(out, "fatal error:")) {
			o.Reproduced = true
			o.Detail = "native crash outside the harness goroutine"
		}
		if !o.Reproduced && o.Detail == "" {
			o.Detail = "no panic natively"
		}
	case "hang":
		if strings.Contains(out, "VERIF-PANIC: verif: cycle budget exceeded") || strings.Contains(out, "panic: verif: cycle budget exceeded") {
			o.Reproduced = true
			o.Detail = "native run exceeds the cycle budget (instrumented Run loop aborted)"
		} else if hung {
			o.Reproduced = true
			o.Detail = "native run does not return within " + r.Timeout.String()
		} else {
			o.Detail = "native run returns"
		}
	}
	return o
}

func tail(s string, n int) string {
	if len(s) <= n {
		return s
	}
	return s[len(s)-n:]
}

// ToVals converts a solver model to the table the native vp functions read.
func ToVals(m map[string]uint64) map[string]int64 {
	v := map[string]int64{}
	for k, x := range m {
		v[k] = int64(x)
	}
	return v
}
