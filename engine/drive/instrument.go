package drive

// Instrument regenerates, from the current source of every proc/mvp*/cpu.go,
// a copy in which each `for` loop inside `func (…) Run` starts with a call of
// verifTick (defined by the overlaid in-package harness file), and returns the
// overlay entries (virtual path -> generated file). Filled in by tick.go.
func Instrument(repo, scratch string) (map[string]string, string, error) {
	return instrumentRunLoops(repo, scratch)
}
