// Package drive loads /repo with the /verif harness overlay, runs harness jobs
// on a pool of symbolic-execution workers, replays counterexamples natively,
// matches them against the known-findings file and writes evidence.
package drive

import (
	"fmt"
	"os"
	"path/filepath"
	"sort"
	"strings"
	"time"

	"golang.org/x/tools/go/packages"
	"golang.org/x/tools/go/ssa"
	"golang.org/x/tools/go/ssa/ssautil"
	"verif/engine/interp"
)

const ModPath = "github.com/teivah/majorana"

type Loaded struct {
	Repo     string
	Harness  string
	Overlay  map[string][]byte // virtual path under Repo -> content
	OnDisk   map[string]string // virtual path -> real file (for go test -overlay)
	Prog     *interp.Program
	Pkgs     map[string]*ssa.Package // by import path
	LoadTime time.Duration
}

// BuildOverlay maps every file of harnessDir to the same relative path under
// repo. extra (virtual path -> real path) is added on top (instrumented copies).
func BuildOverlay(repo, harnessDir string, extra map[string]string) (map[string][]byte, map[string]string, error) {
	ov := map[string][]byte{}
	disk := map[string]string{}
	err := filepath.Walk(harnessDir, func(p string, info os.FileInfo, err error) error {
		if err != nil {
			return err
		}
		if info.IsDir() || !strings.HasSuffix(p, ".go") {
			return nil
		}
		rel, _ := filepath.Rel(harnessDir, p)
		b, err := os.ReadFile(p)
		if err != nil {
			return err
		}
		v := filepath.Join(repo, rel)
		ov[v] = b
		disk[v] = p
		return nil
	})
	if err != nil {
		return nil, nil, err
	}
	for v, real := range extra {
		b, err := os.ReadFile(real)
		if err != nil {
			return nil, nil, err
		}
		ov[v] = b
		disk[v] = real
	}
	return ov, disk, nil
}

func GoEnv() []string {
	env := os.Environ()
	return append(env, "GOFLAGS=-mod=mod", "GOPROXY=off", "GOSUMDB=off", "GOTOOLCHAIN=local", "CGO_ENABLED=0")
}

// Load type-checks /repo (current working tree) plus the overlay and builds SSA
// for everything reachable.
func Load(repo, harnessDir string, extra map[string]string) (*Loaded, error) {
	t0 := time.Now()
	ov, disk, err := BuildOverlay(repo, harnessDir, extra)
	if err != nil {
		return nil, err
	}
	// overlay-only package directories must be named explicitly
	patterns := []string{"./..."}
	seenDir := map[string]bool{}
	for v := range ov {
		d := filepath.Dir(v)
		if seenDir[d] {
			continue
		}
		seenDir[d] = true
		if _, err := os.Stat(d); err != nil {
			rel, _ := filepath.Rel(repo, d)
			patterns = append(patterns, "./"+rel)
		}
	}
	sort.Strings(patterns[1:])
	cfg := &packages.Config{
		Mode:    packages.LoadAllSyntax,
		Dir:     repo,
		Overlay: ov,
		Env:     GoEnv(),
	}
	pkgs, err := packages.Load(cfg, patterns...)
	if err != nil {
		return nil, err
	}
	var errs []string
	packages.Visit(pkgs, nil, func(p *packages.Package) {
		for _, e := range p.Errors {
			errs = append(errs, e.Error())
		}
	})
	if len(errs) > 0 {
		return nil, fmt.Errorf("load errors:\n%s", strings.Join(errs, "\n"))
	}
	prog, _ := ssautil.AllPackages(pkgs, ssa.InstantiateGenerics)
	prog.Build()
	seen := map[*packages.Package]bool{}
	var order []*packages.Package
	var visit func(p *packages.Package)
	visit = func(p *packages.Package) {
		if seen[p] {
			return
		}
		seen[p] = true
		var imps []string
		for k := range p.Imports {
			imps = append(imps, k)
		}
		sort.Strings(imps)
		for _, k := range imps {
			visit(p.Imports[k])
		}
		order = append(order, p)
	}
	sort.Slice(pkgs, func(i, j int) bool { return pkgs[i].PkgPath < pkgs[j].PkgPath })
	for _, p := range pkgs {
		visit(p)
	}
	var mine []*ssa.Package
	byPath := map[string]*ssa.Package{}
	for _, p := range order {
		if strings.HasPrefix(p.PkgPath, ModPath) {
			if sp := prog.Package(p.Types); sp != nil {
				mine = append(mine, sp)
				byPath[p.PkgPath] = sp
			}
		}
	}
	return &Loaded{Repo: repo, Harness: harnessDir, Overlay: ov, OnDisk: disk,
		Prog: interp.NewProgram(prog, mine), Pkgs: byPath, LoadTime: time.Since(t0)}, nil
}

// Func finds a harness function by package path suffix (relative to the module).
func (l *Loaded) Func(pkgRel, name string) (*ssa.Function, error) {
	path := ModPath
	if pkgRel != "" && pkgRel != "." {
		path += "/" + pkgRel
	}
	p, ok := l.Pkgs[path]
	if !ok {
		return nil, fmt.Errorf("package %s not loaded", path)
	}
	f := p.Func(name)
	if f == nil {
		return nil, fmt.Errorf("function %s.%s not found", path, name)
	}
	return f, nil
}
