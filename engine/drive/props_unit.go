package drive

import (
	"fmt"
	"strconv"
)

func init() {
	builders["C14"] = specC14
	builders["C13"] = specC13
	builders["C15"] = specC15
	builders["C11"] = specC11
}

var c11mnemonics = []string{"add", "addi", "and", "andi", "auipc", "beq", "beqz", "bge", "bgeu", "ble", "blt", "bltu", "bne", "bnez", "div", "j", "jal", "jalr", "lui", "lb", "lh", "li", "lw",
	"nop", "mul", "mv", "or", "ori", "rem", "ret", "sb", "sh", "sll", "slli", "slt", "sltu", "slti", "sra", "srai", "srl", "srli", "sub", "sw", "xor", "xori"}

func specC11(l *Loaded, tier string, seed int64) (*Spec, error) {
	var jobs []*Job
	si := strconv.Itoa
	nT, nFree, nOp, nLines := 4, 4, 6, 2
	if tier == "thorough" {
		nT, nFree, nOp, nLines = 5, 5, 7, 2
	}
	// (T) totality: "<mnemonic> " + n arbitrary ASCII bytes, every length 0..nT
	for _, mn := range c11mnemonics {
		for n := 0; n <= nT; n++ {
			jobs = append(jobs, &Job{Pkg: "risc", Fn: "VerifC11Totality", Key: fmt.Sprintf("total|%s|n%d", mn, n), Covers: []string{"parsed"}, MaxPaths: 400_000, MaxConc: 8,
				Params: map[string]string{"prefix": mn + " ", "n": si(n), "two": "0"}})
		}
	}
	// mnemonic-free lines and load/store operand shapes
	for n := 0; n <= nFree; n++ {
		jobs = append(jobs, &Job{Pkg: "risc", Fn: "VerifC11Totality", Key: fmt.Sprintf("total|free|n%d", n), Covers: []string{"parsed"}, MaxPaths: 400_000, MaxConc: 8,
			Params: map[string]string{"prefix": "", "n": si(n), "two": "0"}})
	}
	for _, pre := range []string{"lw t0, ", "sw t0, 4", "lw t0, 0(", "sb t1, -1(t", "lh t0,"} {
		for n := 0; n <= 3; n++ {
			jobs = append(jobs, &Job{Pkg: "risc", Fn: "VerifC11Totality", Key: fmt.Sprintf("total|%q|n%d", pre, n), Covers: []string{"parsed"}, MaxPaths: 400_000, MaxConc: 8,
				Params: map[string]string{"prefix": pre, "n": si(n), "two": "0"}})
		}
	}
	// two-line inputs
	for _, p := range [][2]string{{"", ""}, {"x", "add t0, t1, t"}, {"L", "j "}, {"ret", ""}} {
		for n := 1; n <= 2; n++ {
			jobs = append(jobs, &Job{Pkg: "risc", Fn: "VerifC11Totality", Key: fmt.Sprintf("total2|%q+%q|n%d", p[0], p[1], n), Covers: []string{"parsed"}, MaxPaths: 400_000, MaxConc: 8,
				Params: map[string]string{"prefix": p[0], "n": si(n), "two": "1", "prefix2": p[1], "n2": si(n)}})
		}
	}
	// (O) operand parsers alone
	for which := 0; which < 2; which++ {
		for n := 0; n <= nOp; n++ {
			if which == 1 && n > 5 {
				continue
			}
			jobs = append(jobs, &Job{Pkg: "risc", Fn: "VerifC11Operand", Key: fmt.Sprintf("operand|%s|n%d", []string{"offset-reg", "register"}[which], n), Covers: []string{"end"}, MaxPaths: 400_000, MaxConc: 8,
				Params: map[string]string{"which": si(which), "n": si(n)}})
		}
	}
	jobs = append(jobs, &Job{Pkg: "risc", Fn: "VerifC11Registers", Key: "register-table", Covers: []string{"end"}})
	// (D) decode: for every mnemonic the op decoded from "<mn> operands" behaves as the RV32IM definition of that text
	jobs = append(jobs, c02ParseJobs("decode")...)
	// (L) layout: one job per (register set, kinds of the first two lines)
	regsets := [][2]string{{"t0,a0,s11", "0"}}
	if tier == "thorough" {
		regsets = append(regsets, [2]string{"t0,a0,s11", "1"}, [2]string{"zero,ra,t6", "0"}, [2]string{"s10,sp,a7", "0"})
	}
	for _, rs := range regsets {
		for k0 := 0; k0 < 9; k0++ {
			for k1 := 0; k1 < 9; k1++ {
				jobs = append(jobs, &Job{Pkg: "risc", Fn: "VerifC11Layout", Key: fmt.Sprintf("layout|%s|$%s|lines%d|kinds=%d.%d", rs[0], rs[1], nLines, k0, k1), Named: map[string]int{"kind0": k0, "kind1": k1}, MaxPaths: 400_000, MaxConc: 8,
					Params: map[string]string{"lines": si(nLines), "regs": rs[0], "dollar": rs[1]}})
			}
		}
	}
	return &Spec{Jobs: jobs,
		Rule:   "risc.Parse executed on strings whose bytes are SMT variables: (T) '<mnemonic> ' + every length 0..n of arbitrary ASCII bytes for all 45 mnemonics, mnemonic-free lines, load/store operand prefixes and two-line inputs (no panic; error means no program; accepted means instruction count = instruction lines by the harness's own classification); (O) parseOffsetReg/parseRegister alone; (L) 2-3 line programs with symbolic indentation, mnemonic case bits, separators, comments and decimal digits, decoded operands probed through the instruction API",
		Bounds: map[string]interface{}{"symbolic_bytes_after_mnemonic": nT, "free_line_bytes": nFree, "operand_parser_bytes": nOp, "layout_lines": nLines, "bytes": "ASCII (< 0x80)"},
		Assumptions: []string{"bytes < 0x80 (Go's TrimSpace/ToLower treat other bytes through UTF-8 decoding, not modelled)", "engine models of strings.TrimSpace/Split/Index/IndexRune/ToLower and strconv.ParseInt(base 10) over byte sequences (listed in DESIGN §2.4)",
			"comments are full-line or follow an instruction after a space; indentation is leading spaces/tabs", "decimal immediates of two digits with optional sign in the layout harness"},
		Outside: []string{"inputs longer than the stated bounds", "non-ASCII bytes", "duplicate labels (the later one wins; not covered by the statement)"},
	}, nil
}

func specC15(l *Loaded, tier string, seed int64) (*Spec, error) {
	var jobs []*Job
	k, kr := 4, 4
	kAny := 4 // arbitrary tag orders fork on every tag comparison: factorial growth, k stays 4
	if tier == "thorough" {
		k, kr = 5, 5
	}
	si := strconv.Itoa
	for _, rig := range [][2]string{{"map", "1"}, {"rat", "10"}} {
		for _, order := range []string{"any", "program"} {
			for op0 := 0; op0 < 5; op0++ {
				if op0 == 4 && rig[0] == "map" {
					continue
				}
				jobs = append(jobs, &Job{Pkg: "risc", Fn: "VerifC15", Key: fmt.Sprintf("%s|%s-order|op0=%d", rig[0], order, op0), Choices: []int{op0},
					Params: map[string]string{"rig": rig[0], "slots": rig[1], "k": si(map[string]int{"any": kAny, "program": k}[order]), "order": order}, MaxPaths: 3_000_000,
					Note: "history of k operations among tagged write / tagged read / commit / rollback over two registers; values and tags symbolic"})
			}
		}
	}
	for _, ring := range []int{2, 3} {
		for op0 := 0; op0 < 4; op0++ {
			jobs = append(jobs, &Job{Pkg: "proc/comp", Fn: "VerifC15RAT", Key: fmt.Sprintf("ring%d|op0=%d", ring, op0), Choices: []int{0, op0},
				Params: map[string]string{"ring": si(ring), "k": si(kr)}, MaxPaths: 3_000_000})
		}
	}
	return &Spec{Jobs: jobs,
		Rule:   "bounded-exhaustive histories (forks on vp.Choice and on every tag comparison) over the real Context transaction map / rename table and the bare comp.RAT with rings 2 and 3; values and tags are SMT variables, expected values come from a list of tagged writes",
		Bounds: map[string]interface{}{"history_length": k, "history_length_arbitrary_tag_order": kAny, "ring_history_length": kr, "registers": 2, "rings": "10 (inside Context), 2 and 3 (bare RAT)", "tags": "any int32 in (0, 2^20), pairwise distinct per register"},
		Assumptions: []string{"tags are positive (0 means 'no tag' in registerRead)", "one instruction writes a register once (tags of pending writes to one register are distinct)",
			"the strong clauses are asserted only while the uncommitted writes to one register do not exceed the slots (1 for the map, ring length for the table)",
			"beyond the slots, 'commit and plain reads return the youngest value' is asserted for program-order arrival only",
			"a tagged read may return the committed value or any pending write with tag <= t (the statement only forbids younger values)"},
		Outside: []string{"histories longer than k", "more than two registers", "forwarded operands (C04)"},
	}, nil
}

func specC13(l *Loaded, tier string, seed int64) (*Spec, error) {
	var jobs []*Job
	kH, kStepSmall, kG := 3, 1, 4
	if tier == "thorough" {
		kH, kStepSmall, kG = 3, 2, 5
	}
	si := strconv.Itoa
	hist := [][2]int{{2, 2}, {4, 2}, {2, 3}}
	if tier == "thorough" {
		hist = append(hist, [2]int{4, 3})
	}
	for _, g := range hist {
		for op0 := 0; op0 < 6; op0++ {
			jobs = append(jobs, &Job{Pkg: "proc/comp", Fn: "VerifC13History", Key: fmt.Sprintf("history|line%d.lines%d|k%d|op0=%d", g[0], g[1], kH, op0), Choices: []int{op0}, MaxConc: 8,
				Params: map[string]string{"line": si(g[0]), "lines": si(g[1]), "k": si(kH), "bases": "4", "symaddr": "1"}, MaxPaths: 3_000_000,
				Note: "k operations from the empty cache; probe addresses symbolic in [0,4*line), data symbolic"})
		}
	}
	// arbitrary valid state, small geometry, symbolic addresses
	for _, g := range [][2]int{{4, 2}, {4, 3}} {
		for n := g[1] - 1; n <= g[1]; n++ {
			for op0 := 0; op0 < 6; op0++ {
				jobs = append(jobs, &Job{Pkg: "proc/comp", Fn: "VerifC13Step", Key: fmt.Sprintf("step|line%d.lines%d|n%d|k%d|op0=%d", g[0], g[1], n, kStepSmall, op0), Choices: []int{op0}, MaxConc: 8,
					Params: map[string]string{"line": si(g[0]), "lines": si(g[1]), "n": si(n), "k": si(kStepSmall), "bases": "5", "symaddr": "1"}, MaxPaths: 3_000_000})
			}
		}
	}
	// arbitrary valid state at the geometries the variants use: 64 B / 1 KB (16 lines) and 128 B / 4 KB (32 lines)
	kReal := 1 // two operations at 16 and 32 lines of 64/128 symbolic bytes did not finish in 40 minutes: the real geometries stay at one step
	for _, g := range [][3]int{{64, 16, 19}, {128, 32, 37}} {
		for n := g[1] - 1; n <= g[1]; n++ {
			for op0 := 0; op0 < 6; op0++ {
				jobs = append(jobs, &Job{Pkg: "proc/comp", Fn: "VerifC13Step", Key: fmt.Sprintf("step|line%d.lines%d|n%d|k%d|op0=%d", g[0], g[1], n, kReal, op0), Choices: []int{op0},
					Params: map[string]string{"line": si(g[0]), "lines": si(g[1]), "n": si(n), "k": si(kReal), "bases": si(g[2]), "symaddr": "0"}, MaxPaths: 3_000_000,
					Note: "one operation from an arbitrary valid state at a real geometry; every resident byte symbolic; probe addresses at line corners"})
			}
		}
	}
	jobs = append(jobs, &Job{Pkg: "proc/comp", Fn: "VerifC13SubLine", Key: "subline|128in64", Params: map[string]string{"line": "128", "sub": "64", "symaddr": "0"}, Covers: []string{"end"}, MaxConc: 8},
		&Job{Pkg: "proc/comp", Fn: "VerifC13SubLine", Key: "subline|8in4", Params: map[string]string{"line": "8", "sub": "4", "symaddr": "1"}, Covers: []string{"end"}, MaxConc: 8})
	for _, cp := range []int{1, 2, 3} {
		for op0 := 0; op0 < 3; op0++ {
			jobs = append(jobs, &Job{Pkg: "common/cache", Fn: "VerifC13Generic", Key: fmt.Sprintf("generic|cap%d|k%d|op0=%d", cp, kG, op0), Choices: []int{op0},
				Params: map[string]string{"cap": si(cp), "k": si(kG), "keys": "3", "pre": "0"}, MaxPaths: 3_000_000})
		}
	}
	// after a warm-up that already displaced keys (pre = cap+1 or cap+2 concrete puts of distinct keys): repeated displacement
	warm := [][4]int{{3, 5, 4, 2}, {3, 5, 5, 2}, {4, 6, 5, 2}} // capacity, keys, pre, k
	if tier == "thorough" {
		warm = [][4]int{{3, 5, 4, 3}, {3, 5, 5, 3}, {4, 6, 5, 2}, {4, 6, 6, 2}, {2, 4, 3, 3}}
	}
	for _, w := range warm {
		for op0 := 0; op0 < 3; op0++ {
			jobs = append(jobs, &Job{Pkg: "common/cache", Fn: "VerifC13Generic", Key: fmt.Sprintf("generic-warm|cap%d|keys%d|pre%d|k%d|op0=%d", w[0], w[1], w[2], w[3], op0), Choices: []int{op0},
				Params: map[string]string{"cap": si(w[0]), "k": si(w[3]), "keys": si(w[1]), "pre": si(w[2])}, MaxPaths: 3_000_000})
		}
	}
	return &Spec{Jobs: jobs,
		Rule:        "bounded-exhaustive operation histories from the empty cache (small geometries, symbolic probe addresses and data) plus single/double operations from an arbitrary valid state (also at the 64B/1KB and 128B/4KB geometries), each compared with an MRU-first list kept by the harness; the generic LRU against a recency list",
		Bounds:      map[string]interface{}{"history_length": kH, "step_ops_small": kStepSmall, "step_ops_real_geometry": kReal, "geometries": "2x2,4x2,2x3,4x3 bytes x lines (history); 4x2,4x3,64x16,128x32 (step)", "generic": map[string]int{"capacity_max": 3, "keys": 3, "k": kG}, "generic_after_warmup": "capacity 3-4 (thorough also 2), 5-6 keys, cap+1 / cap+2 concrete distinct puts, then 2 (3) symbolic operations"},
		Assumptions: []string{"the caller never inserts a line that overlaps a resident line (overlap is a machine-level matter, C05)", "Write only touches bytes of one resident line (it panics otherwise by contract)", "at the real geometries the arbitrary state has distinct aligned bases in a fixed scrambled recency order and probe addresses are line corners"},
		Outside:     []string{"histories longer than k from the empty cache", "unaligned or overlapping line bases", "String()"},
	}, nil
}

func specC14(l *Loaded, tier string, seed int64) (*Spec, error) {
	var jobs []*Job
	kB, kS, kQ, kBr := 4, 6, 5, 5
	caps := [][2]int{{1, 1}, {2, 2}, {3, 2}, {2, 3}, {1, 3}, {3, 3}}
	if tier == "thorough" {
		kB, kS, kQ, kBr = 5, 8, 6, 6
		caps = nil
		for q := 1; q <= 4; q++ {
			for b := 1; b <= 4; b++ {
				caps = append(caps, [2]int{q, b})
			}
		}
	}
	for _, c := range caps {
		for op0 := 0; op0 < 9; op0++ {
			jobs = append(jobs, &Job{Pkg: "proc/comp", Fn: "VerifC14Buffered", Key: fmt.Sprintf("buffered|q%d.b%d|k%d|op0=%d", c[0], c[1], kB, op0), Choices: []int{op0},
				Params: map[string]string{"qlen": strconv.Itoa(c[0]), "blen": strconv.Itoa(c[1]), "k": strconv.Itoa(kB)}, MaxPaths: 2_000_000,
				Note: "history of k operations chosen among add/connect/get/pick/cycle++/revert/delete-last/clean/exists (first operation fixed per job), payloads and predicates symbolic"})
		}
	}
	kStep := 2
	maxCap := 3
	if tier == "thorough" {
		kStep, maxCap = 2, 4
	}
	for q := 1; q <= maxCap; q++ {
		for bl := 1; bl <= maxCap; bl++ {
			for nq := 0; nq <= q; nq++ {
				for nb := 0; nb <= bl; nb++ {
					if nq+nb == 0 {
						continue
					}
					jobs = append(jobs, &Job{Pkg: "proc/comp", Fn: "VerifC14BufferedStep", Key: fmt.Sprintf("buffered-step|q%d.b%d|nq%d.nb%d|k%d", q, bl, nq, nb, kStep),
						Params: map[string]string{"qlen": strconv.Itoa(q), "blen": strconv.Itoa(bl), "k": strconv.Itoa(kStep), "nq": strconv.Itoa(nq), "nb": strconv.Itoa(nb)}, MaxPaths: 2_000_000,
						Note: "k operations from an arbitrary bus state: nq visible and nb pending items with symbolic payloads, pending availability stamps in {cycle-1,cycle,cycle+1}"})
				}
			}
		}
	}
	if tier != "thorough" {
		// quick: output capacity 4 (four visible items: removal from the middle of a longer queue) with a nearly full and a full output side
		for bl := 1; bl <= 2; bl++ {
			for nq := 3; nq <= 4; nq++ {
				for nb := 0; nb <= bl; nb++ {
					jobs = append(jobs, &Job{Pkg: "proc/comp", Fn: "VerifC14BufferedStep", Key: fmt.Sprintf("buffered-step|q%d.b%d|nq%d.nb%d|k%d", 4, bl, nq, nb, kStep),
						Params: map[string]string{"qlen": "4", "blen": strconv.Itoa(bl), "k": strconv.Itoa(kStep), "nq": strconv.Itoa(nq), "nb": strconv.Itoa(nb)}, MaxPaths: 2_000_000,
						Note: "k operations from an arbitrary bus state with output capacity 4"})
				}
			}
		}
	}
	jobs = append(jobs, &Job{Pkg: "proc/comp", Fn: "VerifC14Simple", Key: fmt.Sprintf("simple|k%d", kS), Params: map[string]string{"k": strconv.Itoa(kS)}, Covers: []string{"end"}, MaxPaths: 2_000_000})
	for ln := 1; ln <= 3; ln++ {
		jobs = append(jobs, &Job{Pkg: "proc/comp", Fn: "VerifC14Queue", Key: fmt.Sprintf("queue|len%d|k%d", ln, kQ), Params: map[string]string{"k": strconv.Itoa(kQ), "len": strconv.Itoa(ln)}, Covers: []string{"end"}, MaxPaths: 2_000_000})
	}
	for n := 1; n <= 2; n++ {
		jobs = append(jobs, &Job{Pkg: "proc/comp", Fn: "VerifC14Broadcast", Key: fmt.Sprintf("broadcast|n%d|k%d", n, kBr), Params: map[string]string{"k": strconv.Itoa(kBr), "listeners": strconv.Itoa(n)}, Covers: []string{"end"}, MaxPaths: 2_000_000})
	}
	return &Spec{Jobs: jobs,
		Rule:   "bounded-exhaustive operation histories (the executor forks on every vp.Choice) over the real BufferedBus/SimpleBus/Queue/Broadcast with symbolic payloads and symbolic Pick/Exists predicates; each delivered item is compared by the solver with the harness's list of undelivered items",
		Bounds: map[string]interface{}{"arbitrary_state_then_k_ops": kStep, "arbitrary_state_capacities": "quick: out,in <= 3 plus out=4,in<=2 with 3-4 visible items; thorough: out,in <= 4", "history_length": map[string]int{"buffered": kB, "simple": kS, "queue": kQ, "broadcast": kBr}, "capacities(out,in)": caps, "payloads": "all int32 values"},
		Assumptions: []string{"producer contract: Add (and Revert) only while CanAdd() reports room", "cycles are non-decreasing", "a reverted item is the next one delivered after the items that are already visible on the output side (Revert/DeleteLast have no caller in the repository; weakest reading of the sentence)",
			"visibility is read through PendingRead(): the visible items are a prefix of the delivery order"},
		Outside: []string{"histories longer than k", "capacities above 4", "payload types other than int32 (the code is generic and never inspects the payload)"},
	}, nil
}
