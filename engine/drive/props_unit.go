package drive

import (
	"fmt"
	"strconv"
)

func init() {
	builders["C14"] = specC14
}

func specC14(l *Loaded, tier string, seed int64) (*Spec, error) {
	var jobs []*Job
	kB, kS, kQ, kBr := 4, 6, 5, 5
	caps := [][2]int{{1, 1}, {2, 2}, {3, 2}, {2, 3}, {1, 3}, {3, 3}}
	if tier == "thorough" {
		kB, kS, kQ, kBr = 6, 9, 7, 7
		caps = nil
		for q := 1; q <= 4; q++ {
			for b := 1; b <= 4; b++ {
				caps = append(caps, [2]int{q, b})
			}
		}
	}
	for _, c := range caps {
		for op0 := 0; op0 < 9; op0++ {
			jobs = append(jobs, &Job{Pkg: "proc/comp", Fn: "VerifC14Buffered", Key: fmt.Sprintf("buffered|q%d.b%d|k%d|op0=%d", c[0], c[1], kB, op0), Choices: []int{op0},
				Params: map[string]string{"qlen": strconv.Itoa(c[0]), "blen": strconv.Itoa(c[1]), "k": strconv.Itoa(kB)}, MaxPaths: 2_000_000,
				Note: "history of k operations chosen among add/connect/get/pick/cycle++/revert/delete-last/clean/exists (first operation fixed per job), payloads and predicates symbolic"})
		}
	}
	kStep := 2
	maxCap := 3
	if tier == "thorough" {
		kStep, maxCap = 3, 4
	}
	for q := 1; q <= maxCap; q++ {
		for bl := 1; bl <= maxCap; bl++ {
			for nq := 0; nq <= q; nq++ {
				for nb := 0; nb <= bl; nb++ {
					if nq+nb == 0 {
						continue
					}
					jobs = append(jobs, &Job{Pkg: "proc/comp", Fn: "VerifC14BufferedStep", Key: fmt.Sprintf("buffered-step|q%d.b%d|nq%d.nb%d|k%d", q, bl, nq, nb, kStep),
						Params: map[string]string{"qlen": strconv.Itoa(q), "blen": strconv.Itoa(bl), "k": strconv.Itoa(kStep), "nq": strconv.Itoa(nq), "nb": strconv.Itoa(nb)}, MaxPaths: 2_000_000,
						Note: "k operations from an arbitrary bus state: nq visible and nb pending items with symbolic payloads, pending availability stamps in {cycle-1,cycle,cycle+1}"})
				}
			}
		}
	}
	jobs = append(jobs, &Job{Pkg: "proc/comp", Fn: "VerifC14Simple", Key: fmt.Sprintf("simple|k%d", kS), Params: map[string]string{"k": strconv.Itoa(kS)}, Covers: []string{"end"}, MaxPaths: 2_000_000})
	for ln := 1; ln <= 3; ln++ {
		jobs = append(jobs, &Job{Pkg: "proc/comp", Fn: "VerifC14Queue", Key: fmt.Sprintf("queue|len%d|k%d", ln, kQ), Params: map[string]string{"k": strconv.Itoa(kQ), "len": strconv.Itoa(ln)}, Covers: []string{"end"}, MaxPaths: 2_000_000})
	}
	for n := 1; n <= 2; n++ {
		jobs = append(jobs, &Job{Pkg: "proc/comp", Fn: "VerifC14Broadcast", Key: fmt.Sprintf("broadcast|n%d|k%d", n, kBr), Params: map[string]string{"k": strconv.Itoa(kBr), "listeners": strconv.Itoa(n)}, Covers: []string{"end"}, MaxPaths: 2_000_000})
	}
	return &Spec{Jobs: jobs,
		Rule: "bounded-exhaustive operation histories (the executor forks on every vp.Choice) over the real BufferedBus/SimpleBus/Queue/Broadcast with symbolic payloads and symbolic Pick/Exists predicates; each delivered item is compared by the solver with the harness's list of undelivered items",
		Bounds: map[string]interface{}{"arbitrary_state_then_k_ops": kStep, "history_length": map[string]int{"buffered": kB, "simple": kS, "queue": kQ, "broadcast": kBr}, "capacities(out,in)": caps, "payloads": "all int32 values"},
		Assumptions: []string{"producer contract: Add (and Revert) only while CanAdd() reports room", "cycles are non-decreasing", "a reverted item is the next one delivered after the items that are already visible on the output side (Revert/DeleteLast have no caller in the repository; weakest reading of the sentence)",
			"visibility is read through PendingRead(): the visible items are a prefix of the delivery order"},
		Outside: []string{"histories longer than k", "capacities above 4", "payload types other than int32 (the code is generic and never inspects the payload)"},
	}, nil
}
