package drive

import (
	"fmt"
	"regexp"
	"runtime/debug"
	"sort"
	"strings"
	"sync"
	"time"

	"verif/engine/interp"
	"verif/engine/sym"
)

// Job is one symbolic execution of a harness function with concrete
// parameters; everything obtained through vp.I32 etc. is symbolic.
type Job struct {
	Prop       string
	Pkg        string // package directory relative to the module root
	Fn         string
	Key        string // identifies the job inside finding keys
	Params     map[string]string
	Policy     int
	MaxPaths   int
	MaxSteps   int64
	MaxQueries int            // solver query budget of the job (0: none); exceeding it ends the job as incomplete
	MaxConc    int            // bound on the values a symbolic index is concretised to (0: 4)
	Named      map[string]int // forced values of vp.Choice calls by name
	Choices    []int          // forced values of the first vp.Choice calls (splits one history space over several jobs)
	RawTerms   bool           // no canonicalising rewrites: every obligation goes to the solver as written
	Covers     []string       // cover points that must be reached by some path (vacuity guard)
	Note       string
}

type Finding struct {
	Kind   string // assert | panic | hang
	Label  string
	Where  string
	Model  map[string]uint64
	JobIdx int
}

type JobResult struct {
	Job              *Job
	Paths            int
	Dead             int
	Steps            int64
	Forks            int
	Merges           int
	MergeFail        int
	Asserts          int
	SymAsserts       int
	PathsWithAsserts int // distinct symbolic paths (decision prefixes) that evaluated at least one assertion
	Queries          int
	SolverTime       time.Duration
	Wall             time.Duration
	Findings         []Finding
	Inconcl          []string // unknown / unsupported / budget on paths / engine errors
	Covers           map[string]int
	Funcs            map[string]int
	Incomplete       bool // path budget hit
	Vars             int
}

var digits = regexp.MustCompile(`-?[0-9]+`)
var hexaddr = regexp.MustCompile(`0x[0-9a-f]+`)

// NormLabel removes run-specific numbers from panic messages.
func NormLabel(s string) string {
	s = hexaddr.ReplaceAllString(s, "0x#")
	s = digits.ReplaceAllString(s, "#")
	if len(s) > 120 {
		s = s[:120]
	}
	return s
}

type Pool struct {
	L       *Loaded
	Workers int
	Solver  string
	Timeout int // per query, seconds
	Verbose bool
}

func (p *Pool) Run(jobs []*Job) []*JobResult {
	res := make([]*JobResult, len(jobs))
	ch := make(chan int)
	var wg sync.WaitGroup
	n := p.Workers
	if n > len(jobs) {
		n = len(jobs)
	}
	for w := 0; w < n; w++ {
		wg.Add(1)
		go func() {
			defer wg.Done()
			solver, err := sym.NewSolverT(p.Solver, p.Timeout)
			if err != nil {
				panic(err)
			}
			defer func() { solver.Close() }()
			for i := range ch {
				r := p.runJob(jobs[i], &solver)
				res[i] = r
				if p.Verbose {
					fmt.Printf("  job %-50s paths=%d steps=%d q=%d wall=%.2fs findings=%d inconcl=%d\n", jobs[i].Key, r.Paths, r.Steps, r.Queries, r.Wall.Seconds(), len(r.Findings), len(r.Inconcl))
				}
			}
		}()
	}
	for i := range jobs {
		ch <- i
	}
	close(ch)
	wg.Wait()
	return res
}

func (p *Pool) runJob(j *Job, solverp **sym.Solver) (r *JobResult) {
	t0 := time.Now()
	r = &JobResult{Job: j, Covers: map[string]int{}, Funcs: map[string]int{}}
	fn, err := p.L.Func(j.Pkg, j.Fn)
	if err != nil {
		r.Inconcl = append(r.Inconcl, "engine: "+err.Error())
		return r
	}
	solver := *solverp
	if solver.Defs > 200_000 {
		// z3 never returns the memory of popped definitions: restart it now and then
		if ns, err := sym.NewSolverT(p.Solver, p.Timeout); err == nil {
			ns.Queries, ns.Time = solver.Queries, solver.Time
			solver.Close()
			solver = ns
			*solverp = ns
		}
	} else if solver.Defs > 0 {
		solver.HardReset()
	}
	q0, st0 := solver.Queries, solver.Time
	ts := sym.NewStore()
	ts.Raw = j.RawTerms
	maxPaths := j.MaxPaths
	if maxPaths == 0 {
		maxPaths = 4096
	}
	work := [][]interp.Dec{nil}
	forkSites := map[string]int{}
	defer func() {
		if p.Verbose && len(forkSites) > 0 {
			fmt.Printf("  fork sites of %s: %v\n", j.Key, forkSites)
		}
	}()
	seenF := map[string]bool{}
	seenI := map[string]bool{}
	vars := map[string]bool{}
	for len(work) > 0 {
		if j.MaxQueries > 0 && solver.Queries-q0 > j.MaxQueries {
			r.Incomplete = true
			r.Inconcl = append(r.Inconcl, fmt.Sprintf("query budget %d exhausted with %d prefixes pending", j.MaxQueries, len(work)))
			break
		}
		if r.Paths >= maxPaths {
			r.Incomplete = true
			r.Inconcl = append(r.Inconcl, fmt.Sprintf("path budget %d exhausted with %d prefixes pending", maxPaths, len(work)))
			break
		}
		prefix := work[len(work)-1]
		work = work[:len(work)-1]
		st := interp.NewState(p.L.Prog, ts, solver, prefix)
		st.Params = j.Params
		st.Policy = j.Policy
		st.MaxConc = j.MaxConc
		st.ForcedChoices = j.Choices
		st.ForcedNamed = j.Named
		if p.Verbose {
			st.ForkSites = forkSites
			st.MergeDebug = forkSites
		}
		if j.MaxSteps > 0 {
			st.MaxSteps = j.MaxSteps
		}
		func() {
			defer func() {
				if e := recover(); e != nil {
					msg := fmt.Sprintf("engine error: %v", e)
					if p.Verbose {
						msg += "\n" + string(debug.Stack())
					}
					if !seenI[NormLabel(fmt.Sprint(e))] {
						seenI[NormLabel(fmt.Sprint(e))] = true
						r.Inconcl = append(r.Inconcl, msg)
					}
					// the solver pipe may be out of sync: restart it
					solver.Close()
					ns, err := sym.NewSolverT(p.Solver, p.Timeout)
					if err == nil {
						ns.Queries, ns.Time = solver.Queries, solver.Time
						solver = ns
						*solverp = ns
					}
				}
			}()
			defer st.Cleanup()
			st.RunInit()
			st.CallFunc(fn, nil)
		}()
		r.Paths++
		if st.Dead {
			r.Dead++
		}
		r.Steps += st.Steps
		r.Forks += st.Forks
		r.Merges += st.Merges
		r.MergeFail += st.MergeFail
		if st.Asserts > 0 {
			r.PathsWithAsserts++
		}
		r.Asserts += st.Asserts
		r.SymAsserts += st.SymAsserts
		for k, v := range st.Funcs {
			r.Funcs[k] += v
		}
		for k, v := range st.Covers {
			r.Covers[k] += v
		}
		for _, v := range st.Vars {
			vars[v.Name] = true
		}
		for _, e := range st.Events {
			switch e.Kind {
			case "assert", "panic", "budget", "deadlock":
				kind := e.Kind
				label := e.Label
				if kind == "budget" || kind == "deadlock" {
					kind = "hang"
					label = e.Kind
				}
				if kind == "panic" && strings.Contains(label, "verif: cycle budget exceeded") {
					kind, label = "hang", "cycle-budget"
				}
				if kind == "panic" {
					label = NormLabel(label)
					if e.Where != "" {
						label = shortWhere(e.Where) + ": " + label
					}
				}
				k := kind + "|" + label
				if seenF[k] {
					continue
				}
				seenF[k] = true
				r.Findings = append(r.Findings, Finding{Kind: kind, Label: label, Where: e.Where, Model: e.Model})
			default:
				k := e.Kind + ": " + NormLabel(e.Label)
				if !seenI[k] {
					seenI[k] = true
					r.Inconcl = append(r.Inconcl, k)
				}
			}
		}
		work = append(work, st.Pending...)
	}
	r.Vars = len(vars)
	r.Queries = solver.Queries - q0
	r.SolverTime = solver.Time - st0
	r.Wall = time.Since(t0)
	sort.Strings(r.Inconcl)
	return r
}

func shortWhere(w string) string {
	w = strings.ReplaceAll(w, ModPath+"/", "")
	return w
}
