package drive

import (
	"fmt"
	"os"
	"path/filepath"
	"strconv"
	"strings"
)

// Config is one machine configuration.
type Config struct {
	Variant string
	EU, WU  int // cores in EU for 7.x / 8
}

func (c Config) String() string {
	switch c.Variant {
	case "1", "2", "3", "4", "5":
		return "mvp" + c.Variant
	case "7.0", "7.1", "8":
		return fmt.Sprintf("mvp%s@%dc", c.Variant, c.EU)
	}
	return fmt.Sprintf("mvp%s@%dx%d", c.Variant, c.EU, c.WU)
}

func (c Config) Width() int {
	switch c.Variant {
	case "1", "2", "3", "4", "5":
		return 1
	}
	return c.EU
}

func configs(tier string, from string) []Config {
	var cs []Config
	for _, v := range []string{"1", "2", "3", "4", "5"} {
		cs = append(cs, Config{v, 1, 1})
	}
	for _, v := range []string{"6.0", "6.1", "6.2", "6.3"} {
		cs = append(cs, Config{v, 2, 2})
	}
	cs = append(cs, Config{"6.3", 3, 3})
	for _, v := range []string{"7.0", "7.1", "8"} {
		cs = append(cs, Config{v, 2, 0})
	}
	cs = append(cs, Config{"8", 3, 0})
	// 3-unit configurations of the other multi-issue variants (several seeded changes need a third unit)
	cs = append(cs, Config{"6.0", 3, 3}, Config{"6.1", 3, 3}, Config{"6.2", 3, 3}, Config{"7.0", 3, 0}, Config{"7.1", 3, 0})
	if tier == "thorough" {
		cs = append(cs, Config{"6.0", 1, 1}, Config{"6.0", 4, 4}, Config{"6.1", 2, 1}, Config{"6.1", 1, 2},
			Config{"6.2", 1, 1}, Config{"6.3", 1, 1}, Config{"6.3", 4, 4},
			Config{"7.0", 1, 0}, Config{"7.1", 4, 0}, Config{"8", 1, 0}, Config{"8", 4, 0})
	}
	if from != "" {
		var out []Config
		for _, c := range cs {
			if variantGE(c.Variant, from) {
				out = append(out, c)
			}
		}
		cs = out
	}
	return cs
}

func variantGE(v, from string) bool {
	a, _ := strconv.ParseFloat(v, 64)
	b, _ := strconv.ParseFloat(from, 64)
	return a >= b
}

// Skeleton is a concrete program text; all data is symbolic.
type Skeleton struct {
	ID       string
	Prog     string
	Init     string // registers with concrete initial values
	Mem      int
	MaxSteps int
	SkipRegs string
	SymMem   string
	Note     string
}

func asm(lines ...string) string { return strings.Join(lines, "\n") + "\n" }

func machineJob(l *Loaded, cfg Config, sk Skeleton, budgetK int) *Job {
	if sk.Mem == 0 {
		sk.Mem = 256
	}
	if sk.MaxSteps == 0 {
		sk.MaxSteps = 64
	}
	prog := sk.Prog
	if strings.HasPrefix(prog, "@") {
		b, err := os.ReadFile(filepath.Join(l.Repo, prog[1:]))
		if err != nil {
			panic(err)
		}
		prog = string(b) + "\n"
	}
	return &Job{Pkg: "verifm", Fn: "VerifMachine", Key: cfg.String() + "|" + sk.ID,
		Params: map[string]string{"variant": cfg.Variant, "eu": strconv.Itoa(cfg.EU), "wu": strconv.Itoa(cfg.WU), "width": strconv.Itoa(cfg.Width()),
			"mem": strconv.Itoa(sk.Mem), "prog": prog, "init": sk.Init, "budgetk": strconv.Itoa(budgetK), "maxsteps": strconv.Itoa(sk.MaxSteps),
			"skipregs": sk.SkipRegs, "symmem": sk.SymMem, "c06": "0"},
		Covers: []string{"ref-done", "run-returned"}, MaxPaths: 24, MaxConc: 3, MaxQueries: 3000, MaxSteps: 80_000_000, Note: sk.Note}
}

const budgetK = 4

func machineJobs(l *Loaded, cfgs []Config, sks []Skeleton) []*Job {
	var jobs []*Job
	for _, sk := range sks {
		for _, cfg := range cfgs {
			jobs = append(jobs, machineJob(l, cfg, sk, budgetK))
		}
	}
	return jobs
}

// label classes of the machine harness
func isArch(kind, label string) bool {
	if kind == "panic" || kind == "hang" {
		return true
	}
	return strings.HasPrefix(label, "reg:") || strings.HasPrefix(label, "mem:") || label == "run-error" || label == "parse" || label == "mem-size"
}

func isTermination(kind, label string) bool {
	if kind == "panic" || kind == "hang" {
		return true
	}
	return label == "cycle-bound" || label == "run-error" || label == "error-reported"
}

func isCycles(kind, label string) bool {
	switch label {
	case "cycles-positive", "cycles-vs-width", "mvp1-cycle-sum", "mvp2-not-slower-than-mvp1", "value-independence":
		return true
	}
	return false
}

var machineAssumptions = []string{
	"programs are the stated skeleton families (concrete instruction text, concrete addresses, symbolic data); nothing is claimed for other programs",
	"debug=false; Stats() not called",
	"map iteration order policy: ascending keys (C08 varies it); goroutines run eagerly",
	"the reference interpreter in /verif/harness/verifm/ref.go is the meaning of 'executing the same instructions one at a time'",
	"cycle budget = 4*(executed+2)*309 loop iterations of Run (instrumented copy of cpu.go) and returned cycles",
}

var machineOutside = []string{"programs outside the generated families", "data-dependent addresses", "parallelism > 4", "debug=true paths", "real multi-threaded execution"}

func machineSpec(l *Loaded, jobs []*Job, filter func(kind, label string) bool, rule string, bounds map[string]interface{}) *Spec {
	return &Spec{Jobs: jobs, Filter: filter, Rule: rule + "; one job per (configuration, program skeleton): the real NewCPU(...).Run is executed symbolically with all 31 registers and every memory byte as SMT variables (forking only on the program's own data-dependent branches or where the simulator itself inspects a value) and compared with a sequential reference interpreter",
		Bounds: bounds, Assumptions: machineAssumptions, Outside: machineOutside}
}

func init() {
	builders["C01"] = specC01
	builders["C03"] = specC03
	builders["C04"] = specC04
	builders["C05"] = specC05
	builders["C07"] = specC07
	builders["C09"] = specC09
	builders["C10"] = specC10
	builders["C12"] = specC12
	builders["C06"] = specC06
	builders["C08"] = specC08
}

func isSame(kind, label string) bool { return strings.HasPrefix(label, "same:") }

func c08Job(l *Loaded, cfg Config, sk Skeleton, mode string, extra map[string]string, tag string) *Job {
	j := machineJob(l, cfg, sk, budgetK)
	j.Fn = "VerifC08"
	j.Key = mode + tag + "|" + j.Key
	j.Params["mode"] = mode
	for _, k := range []string{"policy1", "policy2"} {
		j.Params[k] = "0"
	}
	j.Params["variant2"] = cfg.Variant
	for k, v := range extra {
		j.Params[k] = v
	}
	j.Covers = []string{"end"}
	return j
}

func specC08(l *Loaded, tier string, seed int64) (*Spec, error) {
	var jobs []*Job
	cfgs := configs(tier, "6.0")
	nS := 6
	if tier == "thorough" {
		nS = 24
	}
	var sks []Skeleton
	sks = append(sks, sample(familyDeps(2, false), nS, 0)...)
	sks = append(sks, sample(familyShadows(false), nS, 0)...)
	sks = append(sks, sample(familyTails(), nS/2, 0)...)
	sks = append(sks, familyGeneral()[:6]...)
	md := familyMemDeps(2, false)
	sks = append(sks, md[len(md)-2]) // a store/load chain whose termination depends on map order on MVP-6.0
	sks = append(sks, Skeleton{ID: "c08:two-writers", Prog: asm("add t2, t0, t1", "add t2, t1, t1", "add t3, t2, t0", "sw t3, 64(zero)", "lw t4, 128(zero)", "add a3, t4, zero", "ret")},
		Skeleton{ID: "c08:four-bytes-miss", Prog: asm("sw t0, 8(zero)", "sw t1, 72(zero)", "sw t2, 136(zero)", "lw t3, 200(zero)", "lw t4, 204(zero)", "add a3, t3, t4", "ret")})
	sks = append(sks, extraControl()[0], extraCoherence()[3], extraCoherence()[4])
	// D1: map-iteration order: ascending vs descending / insertion / reverse insertion
	pols := [][2]string{{"0", "1"}, {"0", "3"}}
	if tier == "thorough" {
		pols = append(pols, [2]string{"0", "2"}, [2]string{"1", "2"})
	}
	for _, sk := range sks {
		for _, cfg := range cfgs {
			for _, p := range pols {
				jobs = append(jobs, c08Job(l, cfg, sk, "order", map[string]string{"policy1": p[0], "policy2": p[1]}, p[0]+p[1]))
			}
		}
	}
	// D2: history independence on every variant
	all := configs(tier, "")
	for _, sk := range sks[:len(sks)/2] {
		for _, cfg := range all {
			jobs = append(jobs, c08Job(l, cfg, sk, "repeat", nil, ""))
		}
	}
	// D3: a parsed program reused on a second machine
	reuse := [][2]Config{{{"6.1", 2, 2}, {"1", 1, 1}}, {{"6.1", 2, 2}, {"4", 1, 1}}, {{"6.3", 2, 2}, {"6.0", 2, 2}}, {{"7.1", 2, 0}, {"6.1", 2, 2}}, {{"8", 2, 0}, {"5", 1, 1}}, {{"6.1", 2, 2}, {"6.1", 2, 2}}, {{"8", 2, 0}, {"8", 2, 0}}, {{"6.2", 2, 2}, {"6.2", 2, 2}}, {{"6.3", 2, 2}, {"6.3", 2, 2}}, {{"7.0", 2, 0}, {"7.0", 2, 0}}}
	for _, sk := range sks {
		for _, r := range reuse {
			jobs = append(jobs, c08Job(l, r[0], sk, "reuse", map[string]string{"variant2": r[1].Variant}, "-then-mvp"+r[1].Variant))
		}
	}
	return machineSpec(l, jobs, isSame, "relational runs on one symbolic input that must agree on cycles, every register and every memory word: (D1) the same machine under two Go-map iteration-order policies of the executor, (D2) two fresh machines back to back with every written package-level variable holding an arbitrary (symbolic) value, (D3) one parsed Application run on machine A and then on a fresh machine B versus B on a freshly parsed program",
		map[string]interface{}{"configurations": cfgNames(cfgs), "skeletons": len(sks), "order_policy_pairs": pols, "reuse_pairs": len(reuse)}), nil
}

func isC06(kind, label string) bool {
	if strings.HasPrefix(label, "c06:") {
		return true
	}
	if kind == "panic" {
		// protocol panics raised by the coherence code itself
		for _, s := range []string{"cacheController", ".msi)", "comp.Sem", "msi."} {
			if strings.Contains(label, s) {
				return true
			}
		}
	}
	return false
}

func specC06(l *Loaded, tier string, seed int64) (*Spec, error) {
	var cfgs []Config
	for _, v := range []string{"7.0", "7.1", "8"} {
		for cores := 1; cores <= 4; cores++ {
			if tier != "thorough" && (cores == 1 || cores == 4) && v != "8" {
				continue
			}
			cfgs = append(cfgs, Config{v, cores, 0})
		}
	}
	sks := familyMemDeps(2, tier == "thorough")
	sks = append(sks, familyCacheShort()...)
	sks = append(sks, extraMemDeps()...)
	sks = append(sks, extraCache()...)
	sks = append(sks, Skeleton{ID: "gen:ld-alu-st", Prog: asm("lw t3, 8(zero)", "add t2, t0, t1", "sub t4, t2, t0", "sw t2, 128(zero)", "addi t6, t3, 1", "ret")},
		Skeleton{ID: "c06:two-lines", Prog: asm("sw t0, 8(zero)", "sw t1, 72(zero)", "lw t3, 12(zero)", "lw t4, 76(zero)", "sw t3, 76(zero)", "sw t4, 12(zero)", "lw t5, 8(zero)", "lw t6, 72(zero)", "add a3, t5, t6", "ret")},
		Skeleton{ID: "c06:ping-pong", Prog: asm("sw t0, 8(zero)", "lw t3, 8(zero)", "sw t1, 12(zero)", "lw t4, 12(zero)", "sw t3, 16(zero)", "lw t5, 16(zero)", "add a3, t4, t5", "ret")},
		Skeleton{ID: "c06:shadow-store", Prog: asm("beq zero, zero, land", "sw t0, 8(zero)", "lw t3, 72(zero)", "land:", "lw t4, 8(zero)", "sw t1, 72(zero)", "add a3, t4, zero", "ret")})
	sks = append(sks, extraCoherence()...)
	if tier == "thorough" {
		sks = append(sks, familyEviction(17, 64, "evict:17x64"), familyShadows(false)[0], familyShadows(false)[5], familyShadows(false)[20])
	}
	jobs := machineJobs(l, cfgs, sks)
	var c8 []Config
	for _, c := range cfgs {
		if c.Variant == "8" && c.EU >= 2 {
			c8 = append(c8, c)
		}
	}
	jobs = append(jobs, machineJobs(l, c8, []Skeleton{familyEvictionUpper(84, 128, "evict-upper:84x128"), familyEviction(84, 128, "evict:84x128"), familyEvictionChain(64, 64, "evict-chain:64:upper")})...)
	for _, j := range jobs {
		j.Params["c06"] = "1"
		j.Covers = append(j.Covers, "c06:checked")
	}
	return machineSpec(l, jobs, isC06, "the MSI invariants are asserted at EVERY iteration of CPU.Run (verifHook of the instrumented cpu.go) on load/store skeletons with 1-4 cores: at most one Modified owner per line and then no Shared copy; a Shared L1 line is byte-identical (decided by the solver for all data) to the next level; L1 holds a line iff its protocol state is not Invalid unless a transfer for that (core,line) is in progress; no duplicate L1 line, aligned bases, full-size lines; lock counters never negative (protocol panics)",
		map[string]interface{}{"configurations": cfgNames(cfgs), "skeletons": len(sks), "invariant_evaluations": "once per loop iteration of Run"}), nil
}

func cfgNames(cs []Config) []string {
	var out []string
	for _, c := range cs {
		out = append(out, c.String())
	}
	return out
}

// generalFor drops the query-heavy gen:loop-mem skeleton (wrongly forwarded, hence symbolic, addresses on MVP-6.x..8) from the quick tier.
func generalFor(tier string) []Skeleton {
	var out []Skeleton
	for _, sk := range familyGeneral() {
		if tier != "thorough" && sk.ID == "gen:loop-mem" {
			continue
		}
		out = append(out, sk)
	}
	return out
}

func specC01(l *Loaded, tier string, seed int64) (*Spec, error) {
	cfgs := configs(tier, "")
	sks := generalFor(tier)
	nDep, nMem, nSh, nTail := 6, 6, 6, 4
	if tier == "thorough" {
		nDep, nMem, nSh, nTail = 60, 40, 40, 20
	}
	sks = append(sks, sample(familyDeps(3, true), nDep, 0)...)
	sks = append(sks, sample(familyMemDeps(2, false), nMem, 0)...)
	sks = append(sks, sample(familyShadows(false), nSh, 0)...)
	sks = append(sks, sample(familyTails(), nTail, 0)...)
	sks = append(sks, familyCacheShort()[:4]...)
	sks = append(sks, extraGeneral()...)
	sks = append(sks, extraDeps()...)
	sks = append(sks, extraShadows()[:6]...)
	sks = append(sks, extraMemDeps()[:6]...)
	sks = append(sks, extraControl()...)
	sks = append(sks, extraCoherence()...)
	jobs01 := machineJobs(l, cfgs, sks)
	for _, c := range cfgs {
		if c.Variant == "8" {
			jobs01 = append(jobs01, machineJob(l, c, familyEvictionChain(64, 64, "evict-chain:64:upper"), budgetK))
		}
	}
	return machineSpec(l, jobs01, isArch, "general programs (ALU/immediate mixes, loops with concrete trip counts, calls, sub-word accesses, the repository's own programs at size 3 with symbolic data) plus a fixed sample of the dependence, memory-dependence, shadow and tail families",
		map[string]interface{}{"configurations": cfgNames(cfgs), "skeletons": len(sks), "max_instructions": 17, "memory_bytes": 256}), nil
}

func specC03(l *Loaded, tier string, seed int64) (*Spec, error) {
	cfgs := configs(tier, "4")
	sks := familyShadows(tier == "thorough")
	sks = append(sks, extraShadows()...)
	return machineSpec(l, machineJobs(l, cfgs, sks), isArch, "branch-shadow family: prefix x {always-taken, data-dependent, slow-resolving conditional branch, j, jal} x shadow of 1-3 instructions {register writes, sw/sb, lw in and out of bounds, jal, div by zero, second branch} x landing code reading the shadow's targets",
		map[string]interface{}{"configurations": cfgNames(cfgs), "skeletons": len(sks), "shadow_length": "1..3"}), nil
}

func specC04(l *Loaded, tier string, seed int64) (*Spec, error) {
	cfgs := configs(tier, "4")
	sks := familyDeps(2, false)
	n3 := 40
	if tier == "thorough" {
		n3 = 600
	}
	sks = append(sks, sample(familyDeps(3, true), n3, 0)...)
	sks = append(sks, extraDeps()...)
	return machineSpec(l, machineJobs(l, cfgs, sks), isArch, "every dependence pattern (up to register renaming) on 2 instructions from {add, lw (miss/hit), sw (store data)} over three registers, plus a fixed sample of the 3-instruction patterns that also contain data-dependent branches",
		map[string]interface{}{"configurations": cfgNames(cfgs), "skeletons": len(sks), "two_instruction_patterns": "all (canonical)", "three_instruction_patterns_sampled": n3}), nil
}

func specC05(l *Loaded, tier string, seed int64) (*Spec, error) {
	cfgs := configs(tier, "3")
	sks := familyCacheShort()
	sks = append(sks, extraCache()...)
	jobs := machineJobs(l, cfgs, sks)
	// eviction depth: one skeleton per cache geometry in quick, several in thorough
	ev := []Skeleton{familyEviction(17, 64, "evict:17x64")}
	if tier == "thorough" {
		ev = append(ev, familyEviction(18, 64, "evict:18x64"), familyEviction(20, 64, "evict:20x64"))
	}
	jobs = append(jobs, machineJobs(l, cfgs, ev)...)
	var c8 []Config
	for _, c := range cfgs {
		if c.Variant == "8" {
			c8 = append(c8, c)
		}
	}
	ev8 := []Skeleton{familyEviction(84, 128, "evict:84x128"), familyEvictionUpper(84, 128, "evict-upper:84x128"), familyEvictionChain(64, 64, "evict-chain:64:upper"), familyEvictionChain(64, 0, "evict-chain:64:lower")}
	if tier == "thorough" {
		ev8 = append(ev8, familyEviction(86, 128, "evict:86x128"))
	}
	jobs = append(jobs, machineJobs(l, c8, ev8)...)
	return machineSpec(l, jobs, isArch, "aligned byte/half/word load/store sequences: first-touch offsets {0,4,8,60} in two lines, overlapping fills of the first-miss-keyed lines of MVP-3..6, write-miss/read-neighbour, dirty data at exit, and eviction depth (17+ distinct 64-byte lines, 33+ 128-byte lines for MVP-8) with a dirty victim that is reloaded",
		map[string]interface{}{"configurations": cfgNames(cfgs), "skeletons": len(sks) + len(ev) + len(ev8), "memory_bytes": "256 (short) / 1216..4480 (eviction)"}), nil
}

func specC09(l *Loaded, tier string, seed int64) (*Spec, error) {
	cfgs := configs(tier, "4")
	sks := familyTails()
	sks = append(sks, extraTails()...)
	return machineSpec(l, machineJobs(l, cfgs, sks), isArch, "body x tail {lw miss/hit, sw miss/hit, lw+use, sw+sw, lb+sb, mul, ALU chain, li} placed immediately before ret and before the fall-through end",
		map[string]interface{}{"configurations": cfgNames(cfgs), "skeletons": len(sks)}), nil
}

func specC10(l *Loaded, tier string, seed int64) (*Spec, error) {
	cfgs := configs(tier, "4")
	d := 2
	if tier == "thorough" {
		d = 4
	}
	sks := familyMemDeps(d, tier == "thorough")
	sks = append(sks, extraMemDeps()...)
	return machineSpec(l, machineJobs(l, cfgs, sks), isArch, "store->load, load->store and store->store pairs to the same byte/word/line at distance 1..d with independent address registers, cold and warm lines, partial overlaps",
		map[string]interface{}{"configurations": cfgNames(cfgs), "skeletons": len(sks), "max_distance": d}), nil
}

func specC07(l *Loaded, tier string, seed int64) (*Spec, error) {
	cfgs := configs(tier, "")
	sks := familyErrors()
	sks = append(sks, generalFor(tier)...)
	n := 10
	if tier == "thorough" {
		n = 80
	}
	sks = append(sks, sample(familyMemDeps(2, false), n, 0)...)
	sks = append(sks, sample(familyShadows(false), n, 0)...)
	sks = append(sks, sample(familyTails(), n, 0)...)
	sks = append(sks, sample(familyDeps(2, false), n, 0)...)
	sks = append(sks, familyCacheShort()...)
	sks = append(sks, extraShadows()...)
	sks = append(sks, extraMemDeps()...)
	sks = append(sks, extraTails()...)
	sks = append(sks, extraGeneral()...)
	sks = append(sks, extraControl()...)
	sks = append(sks, extraCoherence()...)
	sks = append(sks, extraCache()...)
	return machineSpec(l, machineJobs(l, cfgs, sks), isTermination, "termination obligations (no Go panic, Run returns within the cycle budget, returned cycles within the bound, ISA-defined errors reported as an error value) on error programs, the general family and a fixed sample of every other family",
		map[string]interface{}{"configurations": cfgNames(cfgs), "skeletons": len(sks), "budget": "4*(executed+2)*309"}), nil
}

func specC12(l *Loaded, tier string, seed int64) (*Spec, error) {
	cfgs := configs(tier, "")
	sks := generalFor(tier)
	n := 8
	if tier == "thorough" {
		n = 60
	}
	sks = append(sks, sample(familyTails(), n, 0)...)
	sks = append(sks, sample(familyMemDeps(2, false), n, 0)...)
	sks = append(sks, familyCacheShort()[:3]...)
	sks = append(sks, extraGeneral()...)
	sks = append(sks, extraTails()...)
	sks = append(sks, extraControl()...)
	jobs := machineJobs(l, cfgs, sks)
	// value independence: two symbolic states on the same program path must get the same count
	vi := append([]Skeleton{}, generalFor("quick")[:10]...)
	vi = append(vi, Skeleton{ID: "vi:store-miss-then-work", Prog: asm("sw t0, 0(zero)", "addi t2, t2, 1", "sw t2, 8(zero)", "ret")},
		Skeleton{ID: "vi:store-store-load", Prog: asm("sw t0, 72(zero)", "sw t1, 136(zero)", "lw t3, 200(zero)", "add a3, t3, zero", "ret")},
		Skeleton{ID: "vi:load-alu-store", Prog: asm("lw t3, 8(zero)", "add t4, t3, t0", "sw t4, 72(zero)", "mul t5, t4, t1", "add a3, t5, zero", "ret")},
		Skeleton{ID: "vi:subword", Prog: asm("lb t3, 9(zero)", "sb t0, 73(zero)", "lh t4, 10(zero)", "add a3, t3, t4", "ret")})
	if tier == "thorough" {
		vi = append(vi, sample(familyTails(), 12, 0)...)
		vi = append(vi, sample(familyMemDeps(2, false), 12, 0)...)
	}
	for _, sk := range vi {
		for _, cfg := range cfgs {
			j := machineJob(l, cfg, sk, budgetK)
			j.Fn = "VerifC12VI"
			j.Key = "vi|" + j.Key
			j.Covers = []string{"same-path"}
			jobs = append(jobs, j)
		}
	}
	return machineSpec(l, jobs, isCycles, "cycle obligations: MVP-1 equals the analytic latency sum over the reference trace, MVP-2 is not slower than that sum, every variant returns a positive count that is at least executed/width",
		map[string]interface{}{"configurations": cfgNames(cfgs), "skeletons": len(sks)}), nil
}
