package drive

import (
	"fmt"
	"os"
	"path/filepath"
	"strconv"
	"strings"
)

// Config is one machine configuration.
type Config struct {
	Variant string
	EU, WU  int // cores in EU for 7.x / 8
}

func (c Config) String() string {
	switch c.Variant {
	case "1", "2", "3", "4", "5":
		return "mvp" + c.Variant
	case "7.0", "7.1", "8":
		return fmt.Sprintf("mvp%s@%dc", c.Variant, c.EU)
	}
	return fmt.Sprintf("mvp%s@%dx%d", c.Variant, c.EU, c.WU)
}

func (c Config) Width() int {
	switch c.Variant {
	case "1", "2", "3", "4", "5":
		return 1
	}
	return c.EU
}

func configs(tier string, from string) []Config {
	var cs []Config
	for _, v := range []string{"1", "2", "3", "4", "5"} {
		cs = append(cs, Config{v, 1, 1})
	}
	for _, v := range []string{"6.0", "6.1", "6.2", "6.3"} {
		cs = append(cs, Config{v, 2, 2})
	}
	cs = append(cs, Config{"6.3", 3, 3})
	for _, v := range []string{"7.0", "7.1", "8"} {
		cs = append(cs, Config{v, 2, 0})
	}
	cs = append(cs, Config{"8", 3, 0})
	if tier == "thorough" {
		cs = append(cs, Config{"6.0", 1, 1}, Config{"6.0", 3, 3}, Config{"6.0", 4, 4}, Config{"6.1", 2, 1}, Config{"6.1", 1, 2}, Config{"6.1", 3, 3},
			Config{"6.2", 1, 1}, Config{"6.2", 3, 3}, Config{"6.3", 1, 1}, Config{"6.3", 4, 4},
			Config{"7.0", 1, 0}, Config{"7.0", 3, 0}, Config{"7.1", 3, 0}, Config{"7.1", 4, 0}, Config{"8", 1, 0}, Config{"8", 4, 0})
	}
	if from != "" {
		var out []Config
		for _, c := range cs {
			if variantGE(c.Variant, from) {
				out = append(out, c)
			}
		}
		cs = out
	}
	return cs
}

func variantGE(v, from string) bool {
	a, _ := strconv.ParseFloat(v, 64)
	b, _ := strconv.ParseFloat(from, 64)
	return a >= b
}

// Skeleton is a concrete program text; all data is symbolic.
type Skeleton struct {
	ID       string
	Prog     string
	Init     string // registers with concrete initial values
	Mem      int
	MaxSteps int
	SkipRegs string
	SymMem   string
	Note     string
}

func asm(lines ...string) string { return strings.Join(lines, "\n") + "\n" }

func machineJob(l *Loaded, cfg Config, sk Skeleton, budgetK int) *Job {
	if sk.Mem == 0 {
		sk.Mem = 256
	}
	if sk.MaxSteps == 0 {
		sk.MaxSteps = 64
	}
	prog := sk.Prog
	if strings.HasPrefix(prog, "@") {
		b, err := os.ReadFile(filepath.Join(l.Repo, prog[1:]))
		if err != nil {
			panic(err)
		}
		prog = string(b) + "\n"
	}
	return &Job{Pkg: "verifm", Fn: "VerifMachine", Key: cfg.String() + "|" + sk.ID,
		Params: map[string]string{"variant": cfg.Variant, "eu": strconv.Itoa(cfg.EU), "wu": strconv.Itoa(cfg.WU), "width": strconv.Itoa(cfg.Width()),
			"mem": strconv.Itoa(sk.Mem), "prog": prog, "init": sk.Init, "budgetk": strconv.Itoa(budgetK), "maxsteps": strconv.Itoa(sk.MaxSteps),
			"skipregs": sk.SkipRegs, "symmem": sk.SymMem},
		Covers: []string{"ref-done", "run-returned"}, MaxPaths: 24, MaxConc: 3, MaxQueries: 3000, MaxSteps: 80_000_000, Note: sk.Note}
}

const budgetK = 4

func machineJobs(l *Loaded, cfgs []Config, sks []Skeleton) []*Job {
	var jobs []*Job
	for _, sk := range sks {
		for _, cfg := range cfgs {
			jobs = append(jobs, machineJob(l, cfg, sk, budgetK))
		}
	}
	return jobs
}

// label classes of the machine harness
func isArch(kind, label string) bool {
	if kind == "panic" || kind == "hang" {
		return true
	}
	return strings.HasPrefix(label, "reg:") || strings.HasPrefix(label, "mem:") || label == "run-error" || label == "parse" || label == "mem-size"
}

func isTermination(kind, label string) bool {
	if kind == "panic" || kind == "hang" {
		return true
	}
	return label == "cycle-bound" || label == "run-error" || label == "error-reported"
}

func isCycles(kind, label string) bool {
	switch label {
	case "cycles-positive", "cycles-vs-width", "mvp1-cycle-sum", "mvp2-not-slower-than-mvp1", "value-independence":
		return true
	}
	return false
}

var machineAssumptions = []string{
	"programs are the stated skeleton families (concrete instruction text, concrete addresses, symbolic data); nothing is claimed for other programs",
	"debug=false; Stats() not called",
	"map iteration order policy: ascending keys (C08 varies it); goroutines run eagerly",
	"the reference interpreter in /verif/harness/verifm/ref.go is the meaning of 'executing the same instructions one at a time'",
	"cycle budget = 4*(executed+2)*309 loop iterations of Run (instrumented copy of cpu.go) and returned cycles",
}

var machineOutside = []string{"programs outside the generated families", "data-dependent addresses", "parallelism > 4", "debug=true paths", "real multi-threaded execution"}

func machineSpec(l *Loaded, jobs []*Job, filter func(kind, label string) bool, rule string, bounds map[string]interface{}) *Spec {
	return &Spec{Jobs: jobs, Filter: filter, Rule: rule + "; one job per (configuration, program skeleton): the real NewCPU(...).Run is executed symbolically with all 31 registers and every memory byte as SMT variables (forking only on the program's own data-dependent branches or where the simulator itself inspects a value) and compared with a sequential reference interpreter",
		Bounds: bounds, Assumptions: machineAssumptions, Outside: machineOutside}
}

func init() {
	builders["C01"] = specC01
	builders["C03"] = specC03
	builders["C04"] = specC04
	builders["C05"] = specC05
	builders["C07"] = specC07
	builders["C09"] = specC09
	builders["C10"] = specC10
	builders["C12"] = specC12
}

func cfgNames(cs []Config) []string {
	var out []string
	for _, c := range cs {
		out = append(out, c.String())
	}
	return out
}

func specC01(l *Loaded, tier string, seed int64) (*Spec, error) {
	cfgs := configs(tier, "")
	sks := familyGeneral()
	nDep, nMem, nSh, nTail := 6, 6, 6, 4
	if tier == "thorough" {
		nDep, nMem, nSh, nTail = 60, 40, 40, 20
	}
	sks = append(sks, sample(familyDeps(3, true), nDep, 0)...)
	sks = append(sks, sample(familyMemDeps(2, false), nMem, 0)...)
	sks = append(sks, sample(familyShadows(false), nSh, 0)...)
	sks = append(sks, sample(familyTails(), nTail, 0)...)
	sks = append(sks, familyCacheShort()[:4]...)
	return machineSpec(l, machineJobs(l, cfgs, sks), isArch, "general programs (ALU/immediate mixes, loops with concrete trip counts, calls, sub-word accesses, the repository's own programs at size 3 with symbolic data) plus a fixed sample of the dependence, memory-dependence, shadow and tail families",
		map[string]interface{}{"configurations": cfgNames(cfgs), "skeletons": len(sks), "max_instructions": 17, "memory_bytes": 256}), nil
}

func specC03(l *Loaded, tier string, seed int64) (*Spec, error) {
	cfgs := configs(tier, "4")
	sks := familyShadows(tier == "thorough")
	return machineSpec(l, machineJobs(l, cfgs, sks), isArch, "branch-shadow family: prefix x {always-taken, data-dependent, slow-resolving conditional branch, j, jal} x shadow of 1-3 instructions {register writes, sw/sb, lw in and out of bounds, jal, div by zero, second branch} x landing code reading the shadow's targets",
		map[string]interface{}{"configurations": cfgNames(cfgs), "skeletons": len(sks), "shadow_length": "1..3"}), nil
}

func specC04(l *Loaded, tier string, seed int64) (*Spec, error) {
	cfgs := configs(tier, "4")
	sks := familyDeps(2, false)
	n3 := 40
	if tier == "thorough" {
		n3 = 600
	}
	sks = append(sks, sample(familyDeps(3, true), n3, 0)...)
	return machineSpec(l, machineJobs(l, cfgs, sks), isArch, "every dependence pattern (up to register renaming) on 2 instructions from {add, lw (miss/hit), sw (store data)} over three registers, plus a fixed sample of the 3-instruction patterns that also contain data-dependent branches",
		map[string]interface{}{"configurations": cfgNames(cfgs), "skeletons": len(sks), "two_instruction_patterns": "all (canonical)", "three_instruction_patterns_sampled": n3}), nil
}

func specC05(l *Loaded, tier string, seed int64) (*Spec, error) {
	cfgs := configs(tier, "3")
	sks := familyCacheShort()
	jobs := machineJobs(l, cfgs, sks)
	// eviction depth: one skeleton per cache geometry in quick, several in thorough
	ev := []Skeleton{familyEviction(17, 64, "evict:17x64")}
	if tier == "thorough" {
		ev = append(ev, familyEviction(18, 64, "evict:18x64"), familyEviction(20, 64, "evict:20x64"))
	}
	jobs = append(jobs, machineJobs(l, cfgs, ev)...)
	var c8 []Config
	for _, c := range cfgs {
		if c.Variant == "8" {
			c8 = append(c8, c)
		}
	}
	ev8 := []Skeleton{familyEviction(33, 128, "evict:33x128")}
	if tier == "thorough" {
		ev8 = append(ev8, familyEviction(34, 128, "evict:34x128"))
	}
	jobs = append(jobs, machineJobs(l, c8, ev8)...)
	return machineSpec(l, jobs, isArch, "aligned byte/half/word load/store sequences: first-touch offsets {0,4,8,60} in two lines, overlapping fills of the first-miss-keyed lines of MVP-3..6, write-miss/read-neighbour, dirty data at exit, and eviction depth (17+ distinct 64-byte lines, 33+ 128-byte lines for MVP-8) with a dirty victim that is reloaded",
		map[string]interface{}{"configurations": cfgNames(cfgs), "skeletons": len(sks) + len(ev) + len(ev8), "memory_bytes": "256 (short) / 1216..4480 (eviction)"}), nil
}

func specC09(l *Loaded, tier string, seed int64) (*Spec, error) {
	cfgs := configs(tier, "4")
	sks := familyTails()
	return machineSpec(l, machineJobs(l, cfgs, sks), isArch, "body x tail {lw miss/hit, sw miss/hit, lw+use, sw+sw, lb+sb, mul, ALU chain, li} placed immediately before ret and before the fall-through end",
		map[string]interface{}{"configurations": cfgNames(cfgs), "skeletons": len(sks)}), nil
}

func specC10(l *Loaded, tier string, seed int64) (*Spec, error) {
	cfgs := configs(tier, "4")
	d := 2
	if tier == "thorough" {
		d = 4
	}
	sks := familyMemDeps(d, tier == "thorough")
	return machineSpec(l, machineJobs(l, cfgs, sks), isArch, "store->load, load->store and store->store pairs to the same byte/word/line at distance 1..d with independent address registers, cold and warm lines, partial overlaps",
		map[string]interface{}{"configurations": cfgNames(cfgs), "skeletons": len(sks), "max_distance": d}), nil
}

func specC07(l *Loaded, tier string, seed int64) (*Spec, error) {
	cfgs := configs(tier, "")
	sks := familyErrors()
	sks = append(sks, familyGeneral()...)
	n := 10
	if tier == "thorough" {
		n = 80
	}
	sks = append(sks, sample(familyMemDeps(2, false), n, 0)...)
	sks = append(sks, sample(familyShadows(false), n, 0)...)
	sks = append(sks, sample(familyTails(), n, 0)...)
	sks = append(sks, sample(familyDeps(2, false), n, 0)...)
	sks = append(sks, familyCacheShort()...)
	return machineSpec(l, machineJobs(l, cfgs, sks), isTermination, "termination obligations (no Go panic, Run returns within the cycle budget, returned cycles within the bound, ISA-defined errors reported as an error value) on error programs, the general family and a fixed sample of every other family",
		map[string]interface{}{"configurations": cfgNames(cfgs), "skeletons": len(sks), "budget": "4*(executed+2)*309"}), nil
}

func specC12(l *Loaded, tier string, seed int64) (*Spec, error) {
	cfgs := configs(tier, "")
	sks := familyGeneral()
	n := 8
	if tier == "thorough" {
		n = 60
	}
	sks = append(sks, sample(familyTails(), n, 0)...)
	sks = append(sks, sample(familyMemDeps(2, false), n, 0)...)
	sks = append(sks, familyCacheShort()[:3]...)
	jobs := machineJobs(l, cfgs, sks)
	return machineSpec(l, jobs, isCycles, "cycle obligations: MVP-1 equals the analytic latency sum over the reference trace, MVP-2 is not slower than that sum, every variant returns a positive count that is at least executed/width",
		map[string]interface{}{"configurations": cfgNames(cfgs), "skeletons": len(sks)}), nil
}
