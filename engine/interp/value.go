// Package interp is a symbolic executor for go/ssa: concrete heap, scalars
// that are either concrete or SMT terms.
package interp

import (
	"fmt"
	"go/types"
	"sort"
	"strings"

	"golang.org/x/tools/go/ssa"
	"verif/engine/sym"
)

type Value interface{}

// Int is any Go integer (including uintptr, byte, rune). Concrete when T==nil.
type Int struct {
	Bits   uint8
	Signed bool
	C      uint64 // masked to Bits
	T      *sym.Term
}

type Bool struct {
	C bool
	T *sym.Term
}

// Str is a Go string; Sym != nil means symbolic bytes (len(Sym) is the length).
type Str struct {
	S   string
	Sym []Int
}

type Struct []Value
type Array []Value
type Tuple []Value

// Ptr points to a slot. Obj identifies the allocation for ordering/printing.
type Ptr struct {
	P *Value
}

type Slice struct {
	Data []Value // len==len, cap==cap (Go slice semantics are inherited)
	Nil  bool
}

type Iface struct {
	T types.Type // nil: nil interface
	V Value
}

type Closure struct {
	Fn  *ssa.Function
	Env []Value
	// Bound intrinsic (builtins, externals)
	Name string
}

type Float struct{ F float64 }

type mapEntry struct {
	K, V Value
	Seq  int
	sym  bool
}

type Map struct {
	KeyT    types.Type
	Entries []*mapEntry // insertion ordered; deleted entries removed
	Index   map[string]*mapEntry
	seq     int
	nsym    int
}

type Chan struct {
	Buf    []Value
	Cap    int
	Closed bool
	ElemT  types.Type
}

type mapIter struct {
	Entries []*mapEntry
	Pos     int
}

type strIter struct {
	S   string
	Pos int
}

type symStrIter struct {
	B   []Int
	Pos int
}

func mask(bits uint8) uint64 {
	if bits >= 64 {
		return ^uint64(0)
	}
	return (uint64(1) << bits) - 1
}

func mkInt(bits uint8, signed bool, v uint64) Int {
	return Int{Bits: bits, Signed: signed, C: v & mask(bits)}
}

func (i Int) IsSym() bool { return i.T != nil }

// SVal is the signed interpretation of a concrete Int.
func (i Int) SVal() int64 {
	if i.Bits >= 64 {
		return int64(i.C)
	}
	sh := 64 - uint(i.Bits)
	if i.Signed {
		return int64(i.C<<sh) >> sh
	}
	return int64(i.C)
}

func basicInfo(t types.Type) (bits uint8, signed bool, ok bool) {
	b, isB := t.Underlying().(*types.Basic)
	if !isB {
		return 0, false, false
	}
	switch b.Kind() {
	case types.Int8:
		return 8, true, true
	case types.Int16:
		return 16, true, true
	case types.Int32, types.UntypedRune:
		return 32, true, true
	case types.Int64, types.Int, types.UntypedInt:
		return 64, true, true
	case types.Uint8:
		return 8, false, true
	case types.Uint16:
		return 16, false, true
	case types.Uint32:
		return 32, false, true
	case types.Uint64, types.Uint, types.Uintptr:
		return 64, false, true
	}
	return 0, false, false
}

// zero returns the zero value of t.
func zero(t types.Type) Value {
	switch u := t.Underlying().(type) {
	case *types.Basic:
		if bits, signed, ok := basicInfo(t); ok {
			return mkInt(bits, signed, 0)
		}
		switch u.Kind() {
		case types.Bool, types.UntypedBool:
			return Bool{}
		case types.String, types.UntypedString:
			return Str{}
		case types.Float32, types.Float64, types.UntypedFloat:
			return Float{}
		case types.UnsafePointer:
			return Ptr{}
		case types.UntypedNil:
			return nil
		}
		panic(fmt.Sprintf("zero: basic %v", u))
	case *types.Struct:
		s := make(Struct, u.NumFields())
		for i := range s {
			s[i] = zero(u.Field(i).Type())
		}
		return s
	case *types.Array:
		a := make(Array, u.Len())
		for i := range a {
			a[i] = zero(u.Elem())
		}
		return a
	case *types.Pointer:
		return Ptr{}
	case *types.Slice:
		return Slice{Nil: true}
	case *types.Map:
		return (*Map)(nil)
	case *types.Chan:
		return (*Chan)(nil)
	case *types.Signature:
		return (*Closure)(nil)
	case *types.Interface:
		return Iface{}
	case *types.Tuple:
		tu := make(Tuple, u.Len())
		for i := range tu {
			tu[i] = zero(u.At(i).Type())
		}
		return tu
	}
	panic(fmt.Sprintf("zero: type %v", t))
}

// copyVal returns a value that shares no slots with v (aggregates are copied).
func copyVal(v Value) Value {
	switch x := v.(type) {
	case Struct:
		n := make(Struct, len(x))
		for i, e := range x {
			n[i] = copyVal(e)
		}
		return n
	case Array:
		n := make(Array, len(x))
		for i, e := range x {
			n[i] = copyVal(e)
		}
		return n
	case Tuple:
		return x
	}
	return v
}

// keyString is a canonical encoding of a fully concrete comparable value.
func keyString(v Value, sb *strings.Builder) bool {
	switch x := v.(type) {
	case Int:
		if x.T != nil {
			return false
		}
		fmt.Fprintf(sb, "i%d:%d;", x.Bits, x.C)
	case Bool:
		if x.T != nil {
			return false
		}
		fmt.Fprintf(sb, "b%v;", x.C)
	case Str:
		if x.Sym != nil {
			return false
		}
		fmt.Fprintf(sb, "s%d:%s;", len(x.S), x.S)
	case Ptr:
		fmt.Fprintf(sb, "p%p;", x.P)
	case Struct:
		sb.WriteString("{")
		for _, e := range x {
			if !keyString(e, sb) {
				return false
			}
		}
		sb.WriteString("}")
	case Array:
		sb.WriteString("[")
		for _, e := range x {
			if !keyString(e, sb) {
				return false
			}
		}
		sb.WriteString("]")
	case Iface:
		if x.T == nil {
			sb.WriteString("nil;")
		} else {
			sb.WriteString("I" + x.T.String() + ":")
			return keyString(x.V, sb)
		}
	case *Chan:
		fmt.Fprintf(sb, "c%p;", x)
	case Float:
		fmt.Fprintf(sb, "f%v;", x.F)
	default:
		panic(fmt.Sprintf("keyString: %T", v))
	}
	return true
}

// find returns the entry whose key equals k. Concrete keys are hashed; as soon
// as a symbolic key is involved the keys are compared pairwise (syntactically,
// then by the solver, forking only on an undecided pair).
func (st *State) mapFind(m *Map, k Value) *mapEntry {
	var sb strings.Builder
	if keyString(k, &sb) {
		if e, ok := m.Index[sb.String()]; ok {
			return e
		}
		if m.nsym == 0 {
			return nil
		}
		for _, e := range m.Entries {
			if !e.sym {
				continue
			}
			if st.keyEq(e.K, k) {
				return e
			}
		}
		return nil
	}
	for _, e := range m.Entries {
		if st.keyEq(e.K, k) {
			return e
		}
	}
	return nil
}

func (st *State) keyEq(a, b Value) bool {
	eq := st.equals(a, b)
	if eq.T == nil {
		return eq.C
	}
	return st.decide(eq.T)
}

func (st *State) mapUpdate(m *Map, k, v Value) {
	if e := st.mapFind(m, k); e != nil {
		e.V = v
		return
	}
	m.seq++
	e := &mapEntry{K: k, V: v, Seq: m.seq}
	m.Entries = append(m.Entries, e)
	var sb strings.Builder
	if keyString(k, &sb) {
		m.Index[sb.String()] = e
	} else {
		e.sym = true
		m.nsym++
	}
}

func (st *State) mapDelete(m *Map, k Value) {
	e := st.mapFind(m, k)
	if e == nil {
		return
	}
	if e.sym {
		m.nsym--
	} else {
		var sb strings.Builder
		keyString(e.K, &sb)
		delete(m.Index, sb.String())
	}
	for i, x := range m.Entries {
		if x == e {
			m.Entries = append(m.Entries[:i:i], m.Entries[i+1:]...)
			break
		}
	}
}

// keyLess orders concrete keys for the ascending policy.
func keyLess(a, b Value) bool {
	switch x := a.(type) {
	case Int:
		y := b.(Int)
		if x.Signed {
			return x.SVal() < y.SVal()
		}
		return x.C < y.C
	case Str:
		return x.S < b.(Str).S
	case Bool:
		return !x.C && b.(Bool).C
	case Struct:
		y := b.(Struct)
		for i := range x {
			if keyLess(x[i], y[i]) {
				return true
			}
			if keyLess(y[i], x[i]) {
				return false
			}
		}
		return false
	case Array:
		y := b.(Array)
		for i := range x {
			if keyLess(x[i], y[i]) {
				return true
			}
			if keyLess(y[i], x[i]) {
				return false
			}
		}
		return false
	}
	return false // pointers etc.: keep insertion order (stable sort)
}

// ordered returns the entries in the order dictated by the policy.
func (m *Map) ordered(policy int) []*mapEntry {
	es := append([]*mapEntry(nil), m.Entries...)
	if m.nsym > 0 && policy < 2 {
		policy = 2 // symbolic keys cannot be sorted: insertion order
	}
	switch policy {
	case 0: // ascending key (stable: insertion order for incomparable keys)
		sort.SliceStable(es, func(i, j int) bool { return keyLess(es[i].K, es[j].K) })
	case 1: // descending
		sort.SliceStable(es, func(i, j int) bool { return keyLess(es[j].K, es[i].K) })
	case 2: // insertion
	case 3: // reverse insertion
		for i, j := 0, len(es)-1; i < j; i, j = i+1, j-1 {
			es[i], es[j] = es[j], es[i]
		}
	}
	return es
}

type unsupported struct{ msg string }

func errUnsupported(msg string) unsupported { return unsupported{msg} }
func (u unsupported) Error() string         { return "unsupported: " + u.msg }

// goPanic is a Go-level panic of the interpreted program.
type goPanic struct {
	Val Value
	Msg string
}

func (p goPanic) Error() string { return "panic: " + p.Msg }

func show(v Value) string {
	switch x := v.(type) {
	case Int:
		if x.T != nil {
			return x.T.String()
		}
		if x.Signed {
			return fmt.Sprint(x.SVal())
		}
		return fmt.Sprint(x.C)
	case Bool:
		if x.T != nil {
			return x.T.String()
		}
		return fmt.Sprint(x.C)
	case Str:
		return showStr(x)
	case Struct:
		var p []string
		for _, e := range x {
			p = append(p, show(e))
		}
		return "{" + strings.Join(p, " ") + "}"
	case Array:
		var p []string
		for _, e := range x {
			p = append(p, show(e))
		}
		return "[" + strings.Join(p, " ") + "]"
	case Iface:
		if x.T == nil {
			return "<nil>"
		}
		return show(x.V)
	}
	return fmt.Sprintf("%T", v)
}
