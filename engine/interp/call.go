package interp

import (
	"fmt"
	"go/types"
	"sort"
	"strconv"
	"strings"

	"golang.org/x/tools/go/ssa"
	"verif/engine/sym"
)

// prepareCall resolves the callee and evaluates the arguments now.
func (st *State) prepareCall(fr *frame, c *ssa.CallCommon) (func([]Value) Value, []Value) {
	var args []Value
	if c.IsInvoke() {
		recv := st.get(fr, c.Value).(Iface)
		if recv.T == nil {
			panic(goPanic{Msg: "runtime error: invalid memory address or nil pointer dereference (invoke " + c.Method.Name() + ")"})
		}
		fn := st.P.Prog.LookupMethod(recv.T, c.Method.Pkg(), c.Method.Name())
		if fn == nil {
			panic(errUnsupported(fmt.Sprintf("method %v.%s not found", recv.T, c.Method.Name())))
		}
		args = append(args, recv.V)
		for _, a := range c.Args {
			args = append(args, st.get(fr, a))
		}
		return func(a []Value) Value { return st.call(fn, a, nil) }, args
	}
	for _, a := range c.Args {
		args = append(args, st.get(fr, a))
	}
	switch f := c.Value.(type) {
	case *ssa.Function:
		return func(a []Value) Value { return st.call(f, a, nil) }, args
	case *ssa.Builtin:
		name := f.Name()
		sig := c
		return func(a []Value) Value { return st.builtin(name, a, sig) }, args
	}
	cl := st.get(fr, c.Value).(*Closure)
	if cl == nil {
		panic(goPanic{Msg: "runtime error: call of nil func"})
	}
	return func(a []Value) Value { return st.call(cl.Fn, a, cl.Env) }, args
}

func (st *State) callCommon(fr *frame, c *ssa.CallCommon) Value {
	fn, args := st.prepareCall(fr, c)
	return fn(args)
}

func (st *State) builtin(name string, a []Value, c *ssa.CallCommon) Value {
	switch name {
	case "len":
		switch x := a[0].(type) {
		case Slice:
			return mkInt(64, true, uint64(len(x.Data)))
		case Str:
			if x.Sym != nil {
				return mkInt(64, true, uint64(len(x.Sym)))
			}
			return mkInt(64, true, uint64(len(x.S)))
		case *Map:
			if x == nil {
				return mkInt(64, true, 0)
			}
			return mkInt(64, true, uint64(len(x.Entries)))
		case Array:
			return mkInt(64, true, uint64(len(x)))
		case Ptr:
			return mkInt(64, true, uint64(len((*x.P).(Array))))
		case *Chan:
			return mkInt(64, true, uint64(len(x.Buf)))
		}
	case "cap":
		switch x := a[0].(type) {
		case Slice:
			return mkInt(64, true, uint64(cap(x.Data)))
		case *Chan:
			return mkInt(64, true, uint64(x.Cap))
		}
	case "append":
		s := a[0].(Slice)
		var add []Value
		switch t := a[1].(type) {
		case Slice:
			add = t.Data
		case Str:
			for i := 0; i < len(t.S); i++ {
				add = append(add, mkInt(8, false, uint64(t.S[i])))
			}
		}
		if len(add) == 0 {
			return s
		}
		n := len(s.Data)
		if n+len(add) <= cap(s.Data) {
			// in place: the writes are visible through aliases and must be journalled
			d := s.Data[:n+len(add)]
			for i, v := range add {
				st.store(&d[n+i], copyVal(v))
			}
			return Slice{Data: d}
		}
		d := make([]Value, n, growCap(cap(s.Data), n+len(add)))
		for i := range s.Data {
			d[i] = copyVal(s.Data[i])
		}
		for _, v := range add {
			d = append(d, copyVal(v))
		}
		// fill spare capacity with zero values so later in-place appends can store
		if cap(d) > len(d) && len(d) > 0 {
			full := d[:cap(d)]
			for i := len(d); i < len(full); i++ {
				full[i] = zeroLike(d[0])
			}
		}
		return Slice{Data: d}
	case "copy":
		dst := a[0].(Slice)
		var src []Value
		switch t := a[1].(type) {
		case Slice:
			src = t.Data
		case Str:
			for i := 0; i < len(t.S); i++ {
				src = append(src, mkInt(8, false, uint64(t.S[i])))
			}
		}
		n := len(dst.Data)
		if len(src) < n {
			n = len(src)
		}
		tmp := make([]Value, n)
		for i := 0; i < n; i++ {
			tmp[i] = copyVal(src[i])
		}
		for i := 0; i < n; i++ {
			st.store(&dst.Data[i], tmp[i])
		}
		return mkInt(64, true, uint64(n))
	case "delete":
		if st.journalOn > 0 {
			panic(mergeAbort{"map delete in side"})
		}
		if m := a[0].(*Map); m != nil {
			st.mapDelete(m, a[1])
		}
		return nil
	case "clear":
		switch x := a[0].(type) {
		case Slice:
			for i := range x.Data {
				st.store(&x.Data[i], zeroLike(x.Data[i]))
			}
		case *Map:
			if st.journalOn > 0 {
				panic(mergeAbort{"map clear in side"})
			}
			x.Entries = nil
			x.nsym = 0
			x.Index = map[string]*mapEntry{}
		}
		return nil
	case "close":
		a[0].(*Chan).Closed = true
		return nil
	case "min", "max":
		r := a[0]
		for _, y := range a[1:] {
			xi, yi := r.(Int), y.(Int)
			var lt Value
			if name == "min" {
				lt = st.intBinop(tokenLSS, yi, xi)
			} else {
				lt = st.intBinop(tokenLSS, xi, yi)
			}
			m, ok := st.iteVal(st.bterm(lt.(Bool)), yi, xi)
			if !ok {
				panic(errUnsupported("min/max"))
			}
			r = m
		}
		return r
	case "panic":
		panic(goPanic{Val: a[0], Msg: show(a[0])})
	case "print", "println":
		return nil
	case "recover":
		if st.panicking == nil {
			return Iface{}
		}
		gp := st.panicking
		st.panicking = nil
		if i, ok := gp.Val.(Iface); ok && i.T != nil {
			return i
		}
		return Iface{T: types.Typ[types.String], V: Str{S: gp.Msg}}
	case "ssa:wrapnilchk":
		if isNil(a[0]) {
			panic(goPanic{Msg: "value method called using nil pointer"})
		}
		return a[0]
	}
	panic(errUnsupported("builtin " + name + fmt.Sprintf(" %T", a[0])))
}

func zeroLike(v Value) Value {
	switch x := v.(type) {
	case Int:
		return mkInt(x.Bits, x.Signed, 0)
	case Bool:
		return Bool{}
	case Str:
		return Str{}
	case Struct:
		r := make(Struct, len(x))
		for i := range x {
			r[i] = zeroLike(x[i])
		}
		return r
	case Array:
		r := make(Array, len(x))
		for i := range x {
			r[i] = zeroLike(x[i])
		}
		return r
	case Ptr:
		return Ptr{}
	case Slice:
		return Slice{Nil: true}
	case *Map:
		return (*Map)(nil)
	case *Chan:
		return (*Chan)(nil)
	case *Closure:
		return (*Closure)(nil)
	case Iface:
		return Iface{}
	case Float:
		return Float{}
	}
	return nil
}

// growCap follows runtime.growslice's capacity rule (without size classes).
func growCap(old, need int) int {
	newcap := old
	doublecap := newcap + newcap
	if need > doublecap {
		return need
	}
	const threshold = 256
	if old < threshold {
		if doublecap == 0 {
			return need
		}
		return doublecap
	}
	for newcap < need {
		newcap += (newcap + 3*threshold) >> 2
	}
	return newcap
}

// ---- intrinsics and externals ----

func fnKey(fn *ssa.Function) string {
	if fn.Pkg != nil {
		return fn.Pkg.Pkg.Path() + "." + fn.Name()
	}
	if o := fn.Origin(); o != nil && o.Pkg != nil {
		return o.Pkg.Pkg.Path() + "." + o.Name()
	}
	return fn.String()
}

func strArg(v Value) (string, bool) {
	s, ok := v.(Str)
	if !ok || s.Sym != nil {
		return "", false
	}
	return s.S, true
}

func mkStrSlice(ss []string) Value {
	d := make([]Value, len(ss))
	for i, s := range ss {
		d[i] = Str{S: s}
	}
	return Slice{Data: d}
}

var errorType = types.Universe.Lookup("error").Type()

type opaqueErr struct{ msg string }

func mkError(msg string) Value {
	return Iface{T: types.NewPointer(types.Typ[types.String]), V: Str{S: msg}}
}

// intrinsic intercepts functions that are modelled rather than interpreted.
func (st *State) intrinsic(fn *ssa.Function, a []Value) (Value, bool) {
	key := fnKey(fn)
	if strings.HasPrefix(key, "github.com/teivah/majorana/verifvp.") && fn.Synthetic == "" && vpIntercepted[fn.Name()] {
		return st.vp(fn.Name(), a), true
	}
	switch key {
	case "strings.TrimSpace":
		if s, ok := strArg(a[0]); ok {
			return Str{S: strings.TrimSpace(s)}, true
		}
		return st.symTrimSpace(a[0].(Str)), true
	case "strings.Split":
		s, ok1 := strArg(a[0])
		sep, ok2 := strArg(a[1])
		if ok1 && ok2 {
			return mkStrSlice(strings.Split(s, sep)), true
		}
		if ok2 && len(sep) == 1 {
			parts := st.symSplitByte(a[0].(Str), sep[0])
			d := make([]Value, len(parts))
			for i, p := range parts {
				d[i] = p
			}
			return Slice{Data: d}, true
		}
		panic(errUnsupported("strings.Split with a symbolic or multi-byte separator"))
	case "strings.Index":
		s, ok1 := strArg(a[0])
		sep, ok2 := strArg(a[1])
		if ok1 && ok2 {
			return mkInt(64, true, uint64(int64(strings.Index(s, sep)))), true
		}
		if ok2 && len(sep) == 1 {
			return mkInt(64, true, uint64(int64(st.symIndexByte(a[0].(Str), sep[0])))), true
		}
		panic(errUnsupported("strings.Index with a symbolic or multi-byte needle"))
	case "strings.IndexRune":
		s, ok1 := strArg(a[0])
		r := a[1].(Int)
		if ok1 && r.T == nil {
			return mkInt(64, true, uint64(int64(strings.IndexRune(s, rune(r.SVal()))))), true
		}
		if r.T == nil && r.SVal() < 0x80 {
			return mkInt(64, true, uint64(int64(st.symIndexByte(a[0].(Str), byte(r.SVal()))))), true
		}
		panic(errUnsupported("strings.IndexRune with a symbolic or non-ASCII rune"))
	case "strings.ToLower":
		if s, ok := strArg(a[0]); ok {
			return Str{S: strings.ToLower(s)}, true
		}
		return st.symToLower(a[0].(Str)), true
	case "strings.Join":
		sl := a[0].(Slice)
		sep, ok := strArg(a[1])
		if ok {
			var parts []string
			for _, e := range sl.Data {
				s, ok := strArg(e)
				if !ok {
					return nil, false
				}
				parts = append(parts, s)
			}
			return Str{S: strings.Join(parts, sep)}, true
		}
	case "strconv.ParseInt":
		s, ok := strArg(a[0])
		if ok {
			base := int(a[1].(Int).SVal())
			bits := int(a[2].(Int).SVal())
			v, err := strconv.ParseInt(s, base, bits)
			if err != nil {
				return Tuple{mkInt(64, true, uint64(v)), mkError(err.Error())}, true
			}
			return Tuple{mkInt(64, true, uint64(v)), Iface{}}, true
		}
		if base, bits := a[1].(Int), a[2].(Int); base.T == nil && bits.T == nil && base.SVal() == 10 {
			return st.symParseInt(a[0].(Str), int(bits.SVal())), true
		}
		panic(errUnsupported("strconv.ParseInt with symbolic input and base != 10"))
	case "fmt.Errorf":
		f, _ := strArg(a[0])
		return mkError("fmt.Errorf:" + f), true
	case "fmt.Sprintf":
		f, _ := strArg(a[0])
		return Str{S: "fmt.Sprintf:" + f}, true
	case "fmt.Printf", "fmt.Println", "fmt.Print":
		return Tuple{mkInt(64, true, 0), Iface{}}, true
	case "sort.Slice":
		st.sortSlice(a[0].(Iface).V.(Slice), a[1].(*Closure))
		return nil, true
	case "(*sync.Mutex).TryLock":
		p := a[0].(Ptr).P
		held := mutexHeld(p)
		if held {
			return Bool{C: false}, true
		}
		setMutex(st, p, true)
		return Bool{C: true}, true
	case "(*sync.Mutex).Lock":
		p := a[0].(Ptr).P
		if mutexHeld(p) {
			st.event("deadlock", "sync.Mutex.Lock on held mutex", nil)
			panic(pathEnd{"deadlock"})
		}
		setMutex(st, p, true)
		return nil, true
	case "(*sync.Mutex).Unlock":
		p := a[0].(Ptr).P
		if !mutexHeld(p) {
			panic(goPanic{Msg: "sync: unlock of unlocked mutex"})
		}
		setMutex(st, p, false)
		return nil, true
	}
	if fn.Pkg != nil && fn.Pkg.Pkg.Path() == "sync" || strings.HasPrefix(fn.String(), "(*sync.Mutex)") {
		switch fn.Name() {
		case "TryLock":
			p := a[0].(Ptr).P
			if mutexHeld(p) {
				return Bool{C: false}, true
			}
			setMutex(st, p, true)
			return Bool{C: true}, true
		case "Lock":
			p := a[0].(Ptr).P
			if mutexHeld(p) {
				st.event("deadlock", "sync.Mutex.Lock on held mutex", nil)
				panic(pathEnd{"deadlock"})
			}
			setMutex(st, p, true)
			return nil, true
		case "Unlock":
			p := a[0].(Ptr).P
			if !mutexHeld(p) {
				panic(goPanic{Msg: "sync: unlock of unlocked mutex"})
			}
			setMutex(st, p, false)
			return nil, true
		}
	}
	return nil, false
}

// sync.Mutex is struct{state int32; sema uint32}: use state as the held flag.
func mutexHeld(p *Value) bool {
	s := (*p).(Struct)
	return s[0].(Int).C != 0
}

func setMutex(st *State, p *Value, held bool) {
	s := (*p).(Struct)
	v := uint64(0)
	if held {
		v = 1
	}
	st.storeSlot(&s[0], mkInt(32, true, v))
}

func (st *State) sortSlice(s Slice, less *Closure) {
	n := len(s.Data)
	idx := make([]int, n)
	for i := range idx {
		idx[i] = i
	}
	// The less closure indexes the live slice, so sort by swapping in place
	// (insertion sort; comparisons must be concrete in the prototype).
	lessAt := func(i, j int) bool {
		r := st.call(less.Fn, []Value{mkInt(64, true, uint64(i)), mkInt(64, true, uint64(j))}, less.Env).(Bool)
		if r.T != nil {
			panic(errUnsupported("sort.Slice with symbolic comparison"))
		}
		return r.C
	}
	for i := 1; i < n; i++ {
		for j := i; j > 0 && lessAt(j, j-1); j-- {
			a, b := copyVal(s.Data[j]), copyVal(s.Data[j-1])
			st.store(&s.Data[j], b)
			st.store(&s.Data[j-1], a)
		}
	}
	_ = sort.Ints
}

func (st *State) external(fn *ssa.Function, a []Value) Value {
	if v, ok := st.intrinsic(fn, a); ok {
		return v
	}
	panic(errUnsupported("external function " + fn.String()))
}

var vpIntercepted = map[string]bool{"S": true, "N": true, "I8": true, "U8": true, "I16": true, "I32": true, "U32": true,
	"I64": true, "Bool": true, "Choice": true, "Str": true, "Assume": true, "Assert": true, "Cover": true, "Policy": true,
	"Unwind": true, "Fork": true, "Load": true, "Failures": true, "Covers": true}

// vp implements the harness API.
func (st *State) vp(name string, a []Value) Value {
	str := func(i int) string { s, _ := strArg(a[i]); return s }
	switch name {
	case "S":
		v, ok := st.Params[str(0)]
		if !ok {
			panic(errUnsupported("missing job parameter " + str(0)))
		}
		return Str{S: v}
	case "N":
		v, ok := st.Params[str(0)]
		if !ok {
			panic(errUnsupported("missing job parameter " + str(0)))
		}
		n, err := strconv.Atoi(v)
		if err != nil {
			panic(errUnsupported("bad integer job parameter " + str(0)))
		}
		return mkInt(64, true, uint64(int64(n)))
	case "I16":
		return st.NewVar(str(0), 16, true)
	case "Fork":
		c := a[0].(Bool)
		if c.T == nil {
			return c
		}
		return Bool{C: st.decide(c.T)}
	case "Unwind":
		st.Unwind = int(a[0].(Int).SVal())
		return nil
	case "Str":
		n := int(a[1].(Int).SVal())
		bs := make([]Int, n)
		for i := range bs {
			bs[i] = st.NewVar(str(0)+"_"+strconv.Itoa(i), 8, false)
		}
		if n == 0 {
			return Str{}
		}
		return Str{Sym: bs}
	case "I8":
		return st.NewVar(str(0), 8, true)
	case "U8":
		return st.NewVar(str(0), 8, false)
	case "I32":
		return st.NewVar(str(0), 32, true)
	case "U32":
		return st.NewVar(str(0), 32, false)
	case "I64":
		return st.NewVar(str(0), 64, true)
	case "Bool":
		v := st.NewVar(str(0), 1, false)
		if v.T == nil {
			return Bool{C: v.C == 1}
		}
		return st.boolFrom(st.TS.Eq(v.T, st.TS.BV(1, 1)))
	case "Choice":
		// a small integer the engine forks on. The variable is fresh and only
		// constrained to [0,n), so every alternative is feasible: no queries.
		n := int(a[1].(Int).SVal())
		v := st.NewVar(str(0), 8, false)
		if v.T == nil {
			return mkInt(64, true, v.C)
		}
		if fk, named := st.ForcedNamed[str(0)]; named || st.choiceIdx < len(st.ForcedChoices) {
			k := fk
			if !named {
				k = st.ForcedChoices[st.choiceIdx]
			}
			st.choiceIdx++
			if k >= n {
				st.Dead = true
				panic(pathEnd{"forced choice out of range"})
			}
			st.assume(st.TS.Eq(v.T, st.TS.BV(8, uint64(k))))
			return mkInt(64, true, uint64(k))
		}
		st.choiceIdx++
		if st.journalOn > 0 {
			panic(mergeAbort{"choice inside merge side"})
		}
		pos := len(st.decisions)
		k := 0
		if pos < len(st.prefix) {
			k = int(st.prefix[pos].Val)
		} else {
			for alt := 1; alt < n; alt++ {
				st.Pending = append(st.Pending, append(append([]Dec(nil), st.decisions...), Dec{Take: true, HasVal: true, Val: uint64(alt)}))
			}
			if n > 1 {
				st.Forks++
			}
		}
		st.decisions = append(st.decisions, Dec{Take: true, HasVal: true, Val: uint64(k)})
		st.assume(st.TS.Eq(v.T, st.TS.BV(8, uint64(k))))
		return mkInt(64, true, uint64(k))
	case "Assume":
		st.assumeBool(a[0].(Bool))
		return nil
	case "Assert":
		c := a[0].(Bool)
		label := str(1)
		st.Asserts++
		if c.T == nil {
			if !c.C {
				// concretely false: a violation iff this point is reachable
				r, model := st.Solver.Check(st.local, st.Vars)
				switch r {
				case sym.Sat:
					st.event("assert", label, model)
				case sym.Unknown:
					st.event("unknown", "assert "+label, nil)
				}
				if st.journalOn > 0 {
					panic(mergeAbort{"failed assertion inside merge side"})
				}
				if r == sym.Unsat {
					st.Dead = true
					panic(pathEnd{"infeasible"})
				}
			}
			return nil
		}
		st.SymAsserts++
		st.checkBad(st.TS.Not(c.T), "assert", label)
		return nil
	case "Cover":
		st.Covers[str(0)]++
		return nil
	case "Policy":
		st.Policy = int(a[0].(Int).SVal())
		return nil
	case "Load", "Failures", "Covers":
		return nil
	}
	panic(errUnsupported("vp." + name))
}

func (st *State) assumeBool(b Bool) {
	if b.T == nil {
		if !b.C {
			st.Dead = true
			panic(pathEnd{"assume false"})
		}
		return
	}
	if st.journalOn > 0 {
		panic(mergeAbort{"assume in side"})
	}
	if !st.feasible(b.T) {
		st.Dead = true
		panic(pathEnd{"assume infeasible"})
	}
	st.assume(b.T)
}
