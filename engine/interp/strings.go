package interp

// Strings with symbolic bytes (concrete length). The models below are the
// engine's versions of the few standard-library string functions the assembler
// uses; they work byte by byte and fork (by solver) on every comparison of a
// symbolic byte, so that positions of separators are enumerated, never guessed.
// Assumption stated by every harness that uses them: bytes < 0x80 (ASCII).

import (
	"fmt"
	"strconv"

	"verif/engine/sym"
)

// sbytes returns the bytes of s as Ints (concrete ones for a plain string).
func sbytes(s Str) []Int {
	if s.Sym != nil {
		return s.Sym
	}
	out := make([]Int, len(s.S))
	for i := 0; i < len(s.S); i++ {
		out[i] = mkInt(8, false, uint64(s.S[i]))
	}
	return out
}

// mkStr builds a string value; all-concrete bytes give a plain Go string.
func mkStr(bs []Int) Str {
	conc := true
	for _, b := range bs {
		if b.T != nil {
			conc = false
			break
		}
	}
	if conc {
		raw := make([]byte, len(bs))
		for i, b := range bs {
			raw[i] = byte(b.C)
		}
		return Str{S: string(raw)}
	}
	if len(bs) == 0 {
		return Str{}
	}
	return Str{Sym: append([]Int(nil), bs...)}
}

func slen(s Str) int {
	if s.Sym != nil {
		return len(s.Sym)
	}
	return len(s.S)
}

// strEq is the term "a == b" (byte-wise; lengths are concrete).
func (st *State) strEq(a, b Str) Bool {
	if a.Sym == nil && b.Sym == nil {
		return Bool{C: a.S == b.S}
	}
	if slen(a) != slen(b) {
		return Bool{C: false}
	}
	x, y := sbytes(a), sbytes(b)
	r := st.TS.Bool(true)
	for i := range x {
		r = st.TS.And(r, st.TS.Eq(st.term(x[i]), st.term(y[i])))
		if r.IsFalse() {
			break
		}
	}
	return st.boolFrom(r)
}

// strLess: lexicographic a < b.
func (st *State) strLess(a, b Str) Bool {
	x, y := sbytes(a), sbytes(b)
	n := len(x)
	if len(y) < n {
		n = len(y)
	}
	// from the last common byte backwards: lt = x[i]<y[i] || (x[i]==y[i] && lt_rest)
	res := st.TS.Bool(len(x) < len(y))
	for i := n - 1; i >= 0; i-- {
		xi, yi := st.term(x[i]), st.term(y[i])
		res = st.TS.Or(st.TS.Cmp(sym.OpULt, xi, yi), st.TS.And(st.TS.Eq(xi, yi), res))
	}
	return st.boolFrom(res)
}

// byteIs decides (forking if necessary) whether b equals c on this path.
func (st *State) byteIs(b Int, c byte) bool {
	if b.T == nil {
		return byte(b.C) == c
	}
	return st.decide(st.TS.Eq(b.T, st.TS.BV(8, uint64(c))))
}

// byteIn decides whether b is one of the bytes of set.
func (st *State) byteIn(b Int, set string) bool {
	if b.T == nil {
		for i := 0; i < len(set); i++ {
			if byte(b.C) == set[i] {
				return true
			}
		}
		return false
	}
	c := st.TS.Bool(false)
	for i := 0; i < len(set); i++ {
		c = st.TS.Or(c, st.TS.Eq(b.T, st.TS.BV(8, uint64(set[i]))))
	}
	return st.decide(c)
}

func (st *State) byteInRange(b Int, lo, hi byte) bool {
	if b.T == nil {
		return byte(b.C) >= lo && byte(b.C) <= hi
	}
	c := st.TS.And(st.TS.Cmp(sym.OpULe, st.TS.BV(8, uint64(lo)), b.T), st.TS.Cmp(sym.OpULe, b.T, st.TS.BV(8, uint64(hi))))
	return st.decide(c)
}

const asciiSpace = " \t\n\v\f\r"

func (st *State) symTrimSpace(s Str) Str {
	bs := sbytes(s)
	i, j := 0, len(bs)
	for i < j && st.byteIn(bs[i], asciiSpace) {
		i++
	}
	for j > i && st.byteIn(bs[j-1], asciiSpace) {
		j--
	}
	return mkStr(bs[i:j])
}

// symIndexByte: first position of c in s, -1 if none (forks per position).
func (st *State) symIndexByte(s Str, c byte) int {
	bs := sbytes(s)
	for i, b := range bs {
		if st.byteIs(b, c) {
			return i
		}
	}
	return -1
}

func (st *State) symSplitByte(s Str, c byte) []Str {
	bs := sbytes(s)
	var out []Str
	start := 0
	for i, b := range bs {
		if st.byteIs(b, c) {
			out = append(out, mkStr(bs[start:i]))
			start = i + 1
		}
	}
	return append(out, mkStr(bs[start:]))
}

func (st *State) symToLower(s Str) Str {
	bs := sbytes(s)
	out := make([]Int, len(bs))
	for i, b := range bs {
		if b.T == nil {
			c := byte(b.C)
			if c >= 'A' && c <= 'Z' {
				c += 32
			}
			out[i] = mkInt(8, false, uint64(c))
			continue
		}
		up := st.TS.And(st.TS.Cmp(sym.OpULe, st.TS.BV(8, 'A'), b.T), st.TS.Cmp(sym.OpULe, b.T, st.TS.BV(8, 'Z')))
		out[i] = st.fromTerm(st.TS.Ite(up, st.TS.Bin(sym.OpAdd, b.T, st.TS.BV(8, 32)), b.T), 8, false)
	}
	return mkStr(out)
}

// symParseInt models strconv.ParseInt(s, 10, bitSize) for ASCII input:
// optional sign, one or more decimal digits, range check. Longer than 18
// digits: reported as the range error without computing the value.
func (st *State) symParseInt(s Str, bitSize int) Value {
	bs := sbytes(s)
	errV := func(msg string) Value {
		return Tuple{mkInt(64, true, 0), mkError("strconv.ParseInt: " + msg)}
	}
	if len(bs) == 0 {
		return errV("invalid syntax")
	}
	neg := false
	i := 0
	if st.byteIs(bs[0], '-') {
		neg = true
		i = 1
	} else if st.byteIs(bs[0], '+') {
		i = 1
	}
	if i == len(bs) {
		return errV("invalid syntax")
	}
	if len(bs)-i > 18 {
		// digits or not, the value cannot be represented faithfully here
		panic(errUnsupported("strconv.ParseInt on more than 18 symbolic characters"))
	}
	acc := st.TS.BV(64, 0)
	for ; i < len(bs); i++ {
		if !st.byteInRange(bs[i], '0', '9') {
			return errV("invalid syntax")
		}
		d := st.TS.Bin(sym.OpSub, st.TS.ZExt(st.term(bs[i]), 64), st.TS.BV(64, '0'))
		acc = st.TS.Bin(sym.OpAdd, st.TS.Bin(sym.OpAdd, st.TS.Bin(sym.OpShl, acc, st.TS.BV(64, 3)), st.TS.Bin(sym.OpShl, acc, st.TS.BV(64, 1))), d)
	}
	if neg {
		acc = st.TS.Neg(acc)
	}
	v := st.fromTerm(acc, 64, true)
	lim := int64(1) << uint(bitSize-1)
	inRange := st.TS.And(st.TS.Cmp(sym.OpSLe, st.TS.BV(64, uint64(-lim)), acc), st.TS.Cmp(sym.OpSLt, acc, st.TS.BV(64, uint64(lim))))
	ok := true
	if !inRange.IsConst() {
		ok = st.decide(inRange)
	} else {
		ok = inRange.IsTrue()
	}
	if !ok {
		// strconv returns the clamped value with ErrRange; callers here only look at err
		return errV("value out of range")
	}
	return Tuple{v, Iface{}}
}

func showStr(s Str) string {
	if s.Sym == nil {
		return strconv.Quote(s.S)
	}
	return fmt.Sprintf("<sym string len %d>", len(s.Sym))
}
