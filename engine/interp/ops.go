package interp

import (
	"fmt"
	"go/constant"
	"go/token"
	"go/types"

	"golang.org/x/tools/go/ssa"
	"verif/engine/sym"
)

func constString(c *ssa.Const) string { return constant.StringVal(c.Value) }

func (st *State) exec(fr *frame, in ssa.Instruction) {
	switch x := in.(type) {
	case *ssa.Alloc:
		v := zero(x.Type().(*types.Pointer).Elem())
		st.set(fr, x, Ptr{P: &v})
	case *ssa.BinOp:
		st.set(fr, x, st.binop(x.Op, x.X.Type(), st.get(fr, x.X), st.get(fr, x.Y)))
	case *ssa.UnOp:
		st.set(fr, x, st.unop(fr, x))
	case *ssa.Call:
		st.set(fr, x, st.callCommon(fr, &x.Call))
	case *ssa.ChangeInterface:
		st.set(fr, x, st.get(fr, x.X))
	case *ssa.ChangeType:
		st.set(fr, x, st.get(fr, x.X))
	case *ssa.Convert:
		st.set(fr, x, st.convert(x.X.Type(), x.Type(), st.get(fr, x.X)))
	case *ssa.Extract:
		st.set(fr, x, st.get(fr, x.Tuple).(Tuple)[x.Index])
	case *ssa.Field:
		st.set(fr, x, copyVal(st.get(fr, x.X).(Struct)[x.Field]))
	case *ssa.FieldAddr:
		p := st.get(fr, x.X).(Ptr)
		if p.P == nil {
			panic(goPanic{Msg: "nil pointer dereference (field)"})
		}
		s := (*p.P).(Struct)
		st.set(fr, x, Ptr{P: &s[x.Field]})
	case *ssa.Index:
		st.set(fr, x, st.index(fr, x))
	case *ssa.IndexAddr:
		st.set(fr, x, st.indexAddr(fr, x))
	case *ssa.Lookup:
		st.set(fr, x, st.lookup(fr, x))
	case *ssa.MakeChan:
		n := st.concInt(st.get(fr, x.Size), "chan size")
		st.set(fr, x, &Chan{Cap: int(n), ElemT: x.Type().Underlying().(*types.Chan).Elem()})
	case *ssa.MakeClosure:
		env := make([]Value, len(x.Bindings))
		for i, b := range x.Bindings {
			env[i] = st.get(fr, b)
		}
		st.set(fr, x, &Closure{Fn: x.Fn.(*ssa.Function), Env: env})
	case *ssa.MakeInterface:
		st.set(fr, x, Iface{T: x.X.Type(), V: st.get(fr, x.X)})
	case *ssa.MakeMap:
		st.set(fr, x, &Map{KeyT: x.Type().Underlying().(*types.Map).Key(), Index: map[string]*mapEntry{}})
	case *ssa.MakeSlice:
		n := st.concInt(st.get(fr, x.Len), "slice len")
		c := st.concInt(st.get(fr, x.Cap), "slice cap")
		et := x.Type().Underlying().(*types.Slice).Elem()
		data := make([]Value, n, c)
		full := data[:c]
		for i := range full {
			full[i] = zero(et)
		}
		st.set(fr, x, Slice{Data: data})
	case *ssa.MapUpdate:
		if st.journalOn > 0 {
			panic(mergeAbort{"map update in side"})
		}
		m := st.get(fr, x.Map).(*Map)
		if m == nil {
			panic(goPanic{Msg: "assignment to entry in nil map"})
		}
		st.mapUpdate(m, st.get(fr, x.Key), copyVal(st.get(fr, x.Value)))
	case *ssa.Next:
		st.set(fr, x, st.next(fr, x))
	case *ssa.Range:
		st.set(fr, x, st.rangeOf(fr, x))
	case *ssa.Slice:
		st.set(fr, x, st.slice(fr, x))
	case *ssa.Store:
		p := st.get(fr, x.Addr).(Ptr)
		if p.P == nil {
			panic(goPanic{Msg: "nil pointer dereference (store)"})
		}
		st.store(p.P, st.get(fr, x.Val))
	case *ssa.TypeAssert:
		st.set(fr, x, st.typeAssert(fr, x))
	case *ssa.Defer:
		fn, args := st.prepareCall(fr, &x.Call)
		fr.defers = append(fr.defers, func() { fn(args) })
	case *ssa.Go:
		if st.journalOn > 0 {
			panic(mergeAbort{"go in side"})
		}
		fn, args := st.prepareCall(fr, &x.Call)
		st.spawn(func() { fn(args) })
	case *ssa.Send:
		if st.journalOn > 0 {
			panic(mergeAbort{"send in side"})
		}
		ch := st.get(fr, x.Chan).(*Chan)
		st.chanSend(ch, st.get(fr, x.X))
	case *ssa.Select:
		st.set(fr, x, st.selectStmt(fr, x))
	case *ssa.DebugRef:
	case *ssa.SliceToArrayPointer:
		panic(errUnsupported("SliceToArrayPointer"))
	default:
		panic(errUnsupported(fmt.Sprintf("instruction %T", in)))
	}
}

// concInt requires a concrete integer; a symbolic one is concretised by
// solver enumeration is not implemented in the prototype.
func (st *State) concInt(v Value, what string) int64 {
	i := v.(Int)
	if i.T != nil {
		i = st.concretize(i, what)
	}
	return i.SVal()
}

func (st *State) binop(op token.Token, xt types.Type, a, b Value) Value {
	switch x := a.(type) {
	case Int:
		y := b.(Int)
		return st.intBinop(op, x, y)
	case Bool:
		y := b.(Bool)
		switch op {
		case token.EQL:
			return st.boolFrom(st.TS.Eq(st.bterm(x), st.bterm(y)))
		case token.NEQ:
			return st.boolFrom(st.TS.Not(st.TS.Eq(st.bterm(x), st.bterm(y))))
		case token.AND, token.LAND:
			return st.boolFrom(st.TS.And(st.bterm(x), st.bterm(y)))
		case token.OR, token.LOR:
			return st.boolFrom(st.TS.Or(st.bterm(x), st.bterm(y)))
		}
	case Str:
		y := b.(Str)
		if x.Sym != nil || y.Sym != nil {
			switch op {
			case token.ADD:
				return mkStr(append(append([]Int(nil), sbytes(x)...), sbytes(y)...))
			case token.EQL:
				return st.strEq(x, y)
			case token.NEQ:
				return st.boolFrom(st.TS.Not(st.bterm(st.strEq(x, y))))
			case token.LSS:
				return st.strLess(x, y)
			case token.GTR:
				return st.strLess(y, x)
			case token.LEQ:
				return st.boolFrom(st.TS.Not(st.bterm(st.strLess(y, x))))
			case token.GEQ:
				return st.boolFrom(st.TS.Not(st.bterm(st.strLess(x, y))))
			}
			panic(errUnsupported("symbolic string op " + op.String()))
		}
		switch op {
		case token.ADD:
			return Str{S: x.S + y.S}
		case token.EQL:
			return Bool{C: x.S == y.S}
		case token.NEQ:
			return Bool{C: x.S != y.S}
		case token.LSS:
			return Bool{C: x.S < y.S}
		case token.LEQ:
			return Bool{C: x.S <= y.S}
		case token.GTR:
			return Bool{C: x.S > y.S}
		case token.GEQ:
			return Bool{C: x.S >= y.S}
		}
	case Float:
		y := b.(Float)
		switch op {
		case token.ADD:
			return Float{x.F + y.F}
		case token.SUB:
			return Float{x.F - y.F}
		case token.MUL:
			return Float{x.F * y.F}
		case token.QUO:
			return Float{x.F / y.F}
		case token.LSS:
			return Bool{C: x.F < y.F}
		case token.GTR:
			return Bool{C: x.F > y.F}
		case token.EQL:
			return Bool{C: x.F == y.F}
		}
	}
	switch op {
	case token.EQL:
		return st.equals(a, b)
	case token.NEQ:
		e := st.equals(a, b)
		return st.boolFrom(st.TS.Not(st.bterm(e)))
	}
	panic(errUnsupported(fmt.Sprintf("binop %v on %T", op, a)))
}

func (st *State) intBinop(op token.Token, x, y Int) Value {
	ts := st.TS
	// shifts: y may have a different type
	switch op {
	case token.SHL, token.SHR:
		return st.shift(op, x, y)
	}
	if x.Bits != y.Bits {
		panic(fmt.Sprintf("intBinop width mismatch %d %d for %v", x.Bits, y.Bits, op))
	}
	if y.T == nil && y.C == 0 && (op == token.QUO || op == token.REM) {
		panic(goPanic{Msg: "runtime error: integer divide by zero"})
	}
	a, b := st.term(x), st.term(y)
	bv := func(o sym.Op) Value { return st.fromTerm(ts.Bin(o, a, b), x.Bits, x.Signed) }
	cmp := func(o sym.Op, l, r *sym.Term) Value { return st.boolFrom(ts.Cmp(o, l, r)) }
	switch op {
	case token.ADD:
		return bv(sym.OpAdd)
	case token.SUB:
		return bv(sym.OpSub)
	case token.MUL:
		return bv(sym.OpMul)
	case token.QUO, token.REM:
		if y.T != nil {
			st.checkBad(ts.Eq(b, ts.BV(int(y.Bits), 0)), "panic", "runtime error: integer divide by zero")
		}
		if x.Signed {
			if op == token.QUO {
				return bv(sym.OpSDiv)
			}
			return bv(sym.OpSRem)
		}
		if op == token.QUO {
			return bv(sym.OpUDiv)
		}
		return bv(sym.OpURem)
	case token.AND:
		return bv(sym.OpBAnd)
	case token.OR:
		return bv(sym.OpBOr)
	case token.XOR:
		return bv(sym.OpBXor)
	case token.AND_NOT:
		return st.fromTerm(ts.Bin(sym.OpBAnd, a, ts.BNot(b)), x.Bits, x.Signed)
	case token.EQL:
		return st.boolFrom(ts.Eq(a, b))
	case token.NEQ:
		return st.boolFrom(ts.Not(ts.Eq(a, b)))
	case token.LSS:
		if x.Signed {
			return cmp(sym.OpSLt, a, b)
		}
		return cmp(sym.OpULt, a, b)
	case token.LEQ:
		if x.Signed {
			return cmp(sym.OpSLe, a, b)
		}
		return cmp(sym.OpULe, a, b)
	case token.GTR:
		if x.Signed {
			return cmp(sym.OpSLt, b, a)
		}
		return cmp(sym.OpULt, b, a)
	case token.GEQ:
		if x.Signed {
			return cmp(sym.OpSLe, b, a)
		}
		return cmp(sym.OpULe, b, a)
	}
	panic(errUnsupported(fmt.Sprintf("int binop %v", op)))
}

// shift implements Go's shift semantics: a negative signed count panics; a
// count >= width yields 0 (or the sign fill for signed >>).
func (st *State) shift(op token.Token, x, y Int) Value {
	ts := st.TS
	w := int(x.Bits)
	cnt := st.term(y)
	if y.Signed {
		neg := ts.Cmp(sym.OpSLt, cnt, ts.BV(int(y.Bits), 0))
		if neg.IsTrue() {
			panic(goPanic{Msg: "runtime error: negative shift amount"})
		}
		st.checkBad(neg, "panic", "runtime error: negative shift amount")
	}
	// bring the count to the width of x, saturating
	var c *sym.Term
	var big *sym.Term // count >= w
	if int(y.Bits) > w {
		big = ts.Cmp(sym.OpULe, ts.BV(int(y.Bits), uint64(w)), cnt)
		c = ts.Extract(cnt, w-1, 0)
	} else {
		c = ts.ZExt(cnt, w)
		big = ts.Cmp(sym.OpULe, ts.BV(w, uint64(w)), c)
	}
	a := st.term(x)
	var res *sym.Term
	switch {
	case op == token.SHL:
		res = ts.Ite(big, ts.BV(w, 0), ts.Bin(sym.OpShl, a, c))
	case x.Signed:
		res = ts.Ite(big, ts.Bin(sym.OpAShr, a, ts.BV(w, uint64(w-1))), ts.Bin(sym.OpAShr, a, c))
	default:
		res = ts.Ite(big, ts.BV(w, 0), ts.Bin(sym.OpLShr, a, c))
	}
	return st.fromTerm(res, x.Bits, x.Signed)
}

func (st *State) equals(a, b Value) Bool {
	ts := st.TS
	switch x := a.(type) {
	case Int:
		return st.boolFrom(ts.Eq(st.term(x), st.term(b.(Int))))
	case Bool:
		return st.boolFrom(ts.Eq(st.bterm(x), st.bterm(b.(Bool))))
	case Str:
		return st.strEq(x, b.(Str))
	case Ptr:
		y, ok := b.(Ptr)
		if !ok {
			return Bool{C: x.P == nil && b == nil}
		}
		return Bool{C: x.P == y.P}
	case Struct:
		y := b.(Struct)
		r := ts.Bool(true)
		for i := range x {
			r = ts.And(r, st.bterm(st.equals(x[i], y[i])))
		}
		return st.boolFrom(r)
	case Array:
		y := b.(Array)
		r := ts.Bool(true)
		for i := range x {
			r = ts.And(r, st.bterm(st.equals(x[i], y[i])))
		}
		return st.boolFrom(r)
	case Iface:
		y, ok := b.(Iface)
		if !ok {
			return Bool{C: x.T == nil && isNil(b)}
		}
		if x.T == nil || y.T == nil {
			return Bool{C: x.T == nil && y.T == nil}
		}
		if !types.Identical(x.T, y.T) {
			return Bool{C: false}
		}
		return st.equals(x.V, y.V)
	case *Map:
		y, _ := b.(*Map)
		return Bool{C: x == y}
	case *Chan:
		y, _ := b.(*Chan)
		return Bool{C: x == y}
	case *Closure:
		y, _ := b.(*Closure)
		return Bool{C: x == nil && y == nil}
	case Slice:
		y := b.(Slice)
		return Bool{C: x.Nil && y.Nil}
	case nil:
		return Bool{C: isNil(b)}
	case Float:
		return Bool{C: x.F == b.(Float).F}
	}
	panic(errUnsupported(fmt.Sprintf("equals %T", a)))
}

func isNil(v Value) bool {
	switch x := v.(type) {
	case nil:
		return true
	case Ptr:
		return x.P == nil
	case *Map:
		return x == nil
	case *Chan:
		return x == nil
	case *Closure:
		return x == nil
	case Slice:
		return x.Nil
	case Iface:
		return x.T == nil
	}
	return false
}

func (st *State) unop(fr *frame, x *ssa.UnOp) Value {
	v := st.get(fr, x.X)
	switch x.Op {
	case token.MUL:
		p := v.(Ptr)
		if p.P == nil {
			panic(goPanic{Msg: "runtime error: invalid memory address or nil pointer dereference"})
		}
		return st.load(p.P)
	case token.NOT:
		return st.boolFrom(st.TS.Not(st.bterm(v.(Bool))))
	case token.SUB:
		switch i := v.(type) {
		case Int:
			return st.fromTerm(st.TS.Neg(st.term(i)), i.Bits, i.Signed)
		case Float:
			return Float{-i.F}
		}
	case token.XOR:
		i := v.(Int)
		return st.fromTerm(st.TS.BNot(st.term(i)), i.Bits, i.Signed)
	case token.ARROW:
		if st.journalOn > 0 {
			panic(mergeAbort{"recv in side"})
		}
		ch := v.(*Chan)
		val, ok := st.chanRecv(ch, true)
		if x.CommaOk {
			return Tuple{val, Bool{C: ok}}
		}
		return val
	}
	panic(errUnsupported(fmt.Sprintf("unop %v", x.Op)))
}

func (st *State) convert(from, to types.Type, v Value) Value {
	tb, ts_, tok := basicInfo(to)
	switch x := v.(type) {
	case Int:
		if tok {
			t := st.term(x)
			var r *sym.Term
			switch {
			case int(tb) == int(x.Bits):
				r = t
			case int(tb) < int(x.Bits):
				r = st.TS.Extract(t, int(tb)-1, 0)
			case x.Signed:
				r = st.TS.SExt(t, int(tb))
			default:
				r = st.TS.ZExt(t, int(tb))
			}
			return st.fromTerm(r, tb, ts_)
		}
		if b, ok := to.Underlying().(*types.Basic); ok {
			if b.Info()&types.IsString != 0 {
				if x.T != nil {
					panic(errUnsupported("string(symbolic rune)"))
				}
				return Str{S: string(rune(x.SVal()))}
			}
			if b.Info()&types.IsFloat != 0 {
				if x.T != nil {
					panic(errUnsupported("float(symbolic)"))
				}
				if x.Signed {
					return Float{float64(x.SVal())}
				}
				return Float{float64(x.C)}
			}
		}
	case Float:
		if tok {
			return mkInt(tb, ts_, uint64(int64(x.F)))
		}
		return x
	case Str:
		if sl, ok := to.Underlying().(*types.Slice); ok {
			if x.Sym != nil {
				if eb, _, _ := basicInfo(sl.Elem()); eb == 8 {
					d := make([]Value, len(x.Sym))
					for i, b := range x.Sym {
						d[i] = b
					}
					return Slice{Data: d}
				}
				panic(errUnsupported("[]rune(symbolic string)"))
			}
			if eb, _, _ := basicInfo(sl.Elem()); eb == 8 {
				d := make([]Value, len(x.S))
				for i := range d {
					d[i] = mkInt(8, false, uint64(x.S[i]))
				}
				return Slice{Data: d}
			}
			rs := []rune(x.S)
			d := make([]Value, len(rs))
			for i := range d {
				d[i] = mkInt(32, true, uint64(rs[i]))
			}
			return Slice{Data: d}
		}
		return x
	case Slice:
		if b, ok := to.Underlying().(*types.Basic); ok && b.Info()&types.IsString != 0 {
			bs := make([]Int, len(x.Data))
			for i, e := range x.Data {
				bs[i] = e.(Int)
			}
			return mkStr(bs)
		}
		return x
	case Ptr:
		return x
	}
	panic(errUnsupported(fmt.Sprintf("convert %v -> %v (%T)", from, to, v)))
}

func (st *State) boundsCheck(idx Int, n int, what string) int {
	if idx.T == nil {
		i := idx.SVal()
		if i < 0 || i >= int64(n) {
			panic(goPanic{Msg: fmt.Sprintf("runtime error: index out of range [%d] with length %d (%s)", i, n, what)})
		}
		return int(i)
	}
	// symbolic index: can it be out of range? then enumerate the in-range values
	ts := st.TS
	t := idx.T
	w := int(idx.Bits)
	var bad *sym.Term
	if idx.Signed {
		bad = ts.Or(ts.Cmp(sym.OpSLt, t, ts.BV(w, 0)), ts.Cmp(sym.OpSLe, ts.BV(w, uint64(n)), t))
	} else {
		bad = ts.Cmp(sym.OpULe, ts.BV(w, uint64(n)), t)
	}
	st.checkBad(bad, "panic", "runtime error: index out of range ("+what+")")
	c := st.concretize(idx, "index ("+what+")")
	return int(c.SVal())
}

func (st *State) index(fr *frame, x *ssa.Index) Value {
	base := st.get(fr, x.X)
	idx := st.get(fr, x.Index).(Int)
	switch b := base.(type) {
	case Array:
		return copyVal(b[st.boundsCheck(idx, len(b), "array")])
	case Str:
		if b.Sym != nil {
			return b.Sym[st.boundsCheck(idx, len(b.Sym), "string")]
		}
		return mkInt(8, false, uint64(b.S[st.boundsCheck(idx, len(b.S), "string")]))
	}
	panic(errUnsupported(fmt.Sprintf("index %T", base)))
}

func (st *State) indexAddr(fr *frame, x *ssa.IndexAddr) Value {
	base := st.get(fr, x.X)
	idx := st.get(fr, x.Index).(Int)
	switch b := base.(type) {
	case Slice:
		return Ptr{P: &b.Data[st.boundsCheck(idx, len(b.Data), "slice")]}
	case Ptr: // *array
		if b.P == nil {
			panic(goPanic{Msg: "nil pointer dereference (index)"})
		}
		a := (*b.P).(Array)
		return Ptr{P: &a[st.boundsCheck(idx, len(a), "array")]}
	}
	panic(errUnsupported(fmt.Sprintf("indexAddr %T", base)))
}

func (st *State) lookup(fr *frame, x *ssa.Lookup) Value {
	base := st.get(fr, x.X)
	key := st.get(fr, x.Index)
	switch m := base.(type) {
	case *Map:
		vt := x.X.Type().Underlying().(*types.Map).Elem()
		var v Value
		ok := false
		if m != nil {
			if e := st.mapFind(m, key); e != nil {
				v, ok = copyVal(e.V), true
			}
		}
		if !ok {
			v = zero(vt)
		}
		if x.CommaOk {
			return Tuple{v, Bool{C: ok}}
		}
		return v
	case Str:
		idx := key.(Int)
		if m.Sym != nil {
			return m.Sym[st.boundsCheck(idx, len(m.Sym), "string")]
		}
		return mkInt(8, false, uint64(m.S[st.boundsCheck(idx, len(m.S), "string")]))
	}
	panic(errUnsupported(fmt.Sprintf("lookup %T", base)))
}

func (st *State) slice(fr *frame, x *ssa.Slice) Value {
	base := st.get(fr, x.X)
	optInt := func(v ssa.Value, def int) int {
		if v == nil {
			return def
		}
		return int(st.concInt(st.get(fr, v), "slice bound"))
	}
	switch b := base.(type) {
	case Slice:
		lo := optInt(x.Low, 0)
		hi := optInt(x.High, len(b.Data))
		mx := optInt(x.Max, cap(b.Data))
		if lo < 0 || hi < lo || mx < hi || mx > cap(b.Data) {
			panic(goPanic{Msg: fmt.Sprintf("runtime error: slice bounds out of range [%d:%d:%d] with capacity %d", lo, hi, mx, cap(b.Data))})
		}
		if b.Nil && lo == 0 && hi == 0 {
			return Slice{Nil: true}
		}
		return Slice{Data: b.Data[lo:hi:mx]}
	case Str:
		if b.Sym != nil {
			lo := optInt(x.Low, 0)
			hi := optInt(x.High, len(b.Sym))
			if lo < 0 || hi < lo || hi > len(b.Sym) {
				panic(goPanic{Msg: fmt.Sprintf("runtime error: slice bounds out of range [%d:%d] with length %d", lo, hi, len(b.Sym))})
			}
			return Str{Sym: b.Sym[lo:hi:hi]}
		}
		lo := optInt(x.Low, 0)
		hi := optInt(x.High, len(b.S))
		if lo < 0 || hi < lo || hi > len(b.S) {
			panic(goPanic{Msg: fmt.Sprintf("runtime error: slice bounds out of range [%d:%d] with length %d", lo, hi, len(b.S))})
		}
		return Str{S: b.S[lo:hi]}
	case Ptr: // *array
		a := (*b.P).(Array)
		lo := optInt(x.Low, 0)
		hi := optInt(x.High, len(a))
		mx := optInt(x.Max, len(a))
		if lo < 0 || hi < lo || mx < hi || mx > len(a) {
			panic(goPanic{Msg: "runtime error: slice bounds out of range (array)"})
		}
		return Slice{Data: []Value(a)[lo:hi:mx]}
	}
	panic(errUnsupported(fmt.Sprintf("slice %T", base)))
}

func (st *State) rangeOf(fr *frame, x *ssa.Range) Value {
	switch b := st.get(fr, x.X).(type) {
	case *Map:
		if b == nil {
			return &mapIter{}
		}
		return &mapIter{Entries: b.ordered(st.Policy)}
	case Str:
		if b.Sym != nil {
			return &symStrIter{B: b.Sym}
		}
		return &strIter{S: b.S}
	}
	panic(errUnsupported("range"))
}

func (st *State) next(fr *frame, x *ssa.Next) Value {
	switch it := st.get(fr, x.Iter).(type) {
	case *mapIter:
		tt := x.Type().(*types.Tuple)
		if it.Pos >= len(it.Entries) {
			return Tuple{Bool{C: false}, zeroOrNil(tt.At(1).Type()), zeroOrNil(tt.At(2).Type())}
		}
		e := it.Entries[it.Pos]
		it.Pos++
		return Tuple{Bool{C: true}, e.K, copyVal(e.V)}
	case *symStrIter:
		// ASCII assumption (bytes < 0x80): one byte is one rune
		if it.Pos >= len(it.B) {
			return Tuple{Bool{C: false}, mkInt(64, true, 0), mkInt(32, true, 0)}
		}
		b := it.B[it.Pos]
		it.Pos++
		var r Int
		if b.T == nil {
			r = mkInt(32, true, b.C)
		} else {
			r = st.fromTerm(st.TS.ZExt(b.T, 32), 32, true)
		}
		return Tuple{Bool{C: true}, mkInt(64, true, uint64(it.Pos-1)), r}
	case *strIter:
		if it.Pos >= len(it.S) {
			return Tuple{Bool{C: false}, mkInt(64, true, 0), mkInt(32, true, 0)}
		}
		pos := it.Pos
		var r rune
		var size int
		for i, c := range it.S[pos:] {
			if i == 0 {
				r = c
				continue
			}
			size = i
			break
		}
		if size == 0 {
			size = len(it.S) - pos
		}
		it.Pos += size
		return Tuple{Bool{C: true}, mkInt(64, true, uint64(pos)), mkInt(32, true, uint64(r))}
	}
	panic(errUnsupported("next"))
}

func zeroOrNil(t types.Type) Value {
	if t == nil {
		return nil
	}
	if b, ok := t.(*types.Basic); ok && b.Kind() == types.Invalid {
		return nil
	}
	return zero(t)
}

func (st *State) typeAssert(fr *frame, x *ssa.TypeAssert) Value {
	v := st.get(fr, x.X).(Iface)
	var ok bool
	if v.T != nil {
		if it, isI := x.AssertedType.Underlying().(*types.Interface); isI {
			ok = types.Implements(v.T, it)
		} else {
			ok = types.Identical(v.T, x.AssertedType)
		}
	}
	var res Value
	if ok {
		if _, isI := x.AssertedType.Underlying().(*types.Interface); isI {
			res = v
		} else {
			res = v.V
		}
	} else {
		if !x.CommaOk {
			panic(goPanic{Msg: fmt.Sprintf("interface conversion: %v is not %v", v.T, x.AssertedType)})
		}
		res = zero(x.AssertedType)
	}
	if x.CommaOk {
		return Tuple{res, Bool{C: ok}}
	}
	return res
}

// ---- channels & goroutines (cooperative, deterministic) ----

type goroutine struct {
	run  func()
	done bool
}

func (st *State) spawn(f func()) {
	// eager policy: run the goroutine to completion or until it blocks.
	// The prototype supports producers that never block (buffered channel with
	// enough capacity) and lock-step producers via lazy resumption.
	g := &lazyG{f: f}
	st.lazy = append(st.lazy, g)
	st.runLazy(g)
}

// lazyG runs in a real goroutine with a baton so that exactly one side runs.
type lazyG struct {
	f       func()
	kill    bool
	started bool
	done    bool
	toG     chan struct{}
	toMain  chan interface{}
	blocked bool
}

type gBlocked struct{}

func (st *State) runLazy(g *lazyG) {
	if g.done {
		return
	}
	if !g.started {
		g.started = true
		g.toG = make(chan struct{})
		g.toMain = make(chan interface{})
		go func() {
			<-g.toG
			var res interface{}
			func() {
				defer func() {
					if r := recover(); r != nil {
						res = r
					}
				}()
				st.cur = g
				g.f()
			}()
			g.done = true
			g.toMain <- res
		}()
	}
	prev := st.cur
	st.cur = g
	g.toG <- struct{}{}
	r := <-g.toMain
	st.cur = prev
	if r != nil {
		if _, isBlock := r.(gBlocked); !isBlock {
			if g.kill {
				return
			}
			panic(r)
		}
	}
}

// yield is called by a spawned goroutine that cannot make progress.
func (st *State) yield(g *lazyG) {
	g.blocked = true
	g.toMain <- gBlocked{}
	<-g.toG
	g.blocked = false
	if g.kill {
		panic(pathEnd{"killed"})
	}
}

// Cleanup ends the goroutines still parked at the end of a path.
func (st *State) Cleanup() {
	for _, g := range st.lazy {
		if g.started && !g.done {
			g.kill = true
			g.toG <- struct{}{}
			<-g.toMain
		}
	}
	st.lazy = nil
}

func (st *State) chanSend(ch *Chan, v Value) {
	if ch == nil {
		panic(errUnsupported("send on nil channel"))
	}
	for {
		if ch.Closed {
			panic(goPanic{Msg: "send on closed channel"})
		}
		if len(ch.Buf) < ch.Cap || (ch.Cap == 0 && len(ch.Buf) == 0) {
			// unbuffered: model as a one-slot hand-over; the sender continues
			// only after the slot was taken (checked below).
			ch.Buf = append(ch.Buf, v)
			if ch.Cap == 0 {
				for len(ch.Buf) > 0 {
					st.block("send (unbuffered)")
				}
			}
			return
		}
		st.block("send")
	}
}

func (st *State) chanRecv(ch *Chan, blocking bool) (Value, bool) {
	if ch == nil {
		panic(errUnsupported("recv on nil channel"))
	}
	for {
		if len(ch.Buf) > 0 {
			v := ch.Buf[0]
			ch.Buf = ch.Buf[1:]
			return v, true
		}
		if ch.Closed {
			return zero(ch.ElemT), false
		}
		if !blocking {
			return nil, false
		}
		st.block("recv")
	}
}

// block lets other goroutines run; if nobody can, it is a deadlock.
func (st *State) block(what string) {
	if st.cur != nil {
		st.yield(st.cur)
		return
	}
	progressed := false
	for _, g := range st.lazy {
		if !g.done {
			st.runLazy(g)
			progressed = true
		}
	}
	if !progressed {
		st.event("deadlock", "all goroutines are asleep: "+what, st.pcModel())
		panic(pathEnd{"deadlock"})
	}
}

func (st *State) selectStmt(fr *frame, x *ssa.Select) Value {
	if st.journalOn > 0 {
		panic(mergeAbort{"select in side"})
	}
	// result: (index int, recvOk bool, recv values...)
	nrecv := 0
	for _, s := range x.States {
		if s.Dir == types.RecvOnly {
			nrecv++
		}
	}
	mk := func(idx int, ok bool, recvIdx int, v Value) Value {
		t := Tuple{mkInt(64, true, uint64(int64(idx))), Bool{C: ok}}
		k := 0
		for _, s := range x.States {
			if s.Dir == types.RecvOnly {
				if k == recvIdx {
					t = append(t, v)
				} else {
					t = append(t, zero(s.Chan.Type().Underlying().(*types.Chan).Elem()))
				}
				k++
			}
		}
		return t
	}
	for {
		k := 0
		for i, s := range x.States {
			ch := st.get(fr, s.Chan).(*Chan)
			if s.Dir == types.RecvOnly {
				if ch != nil && (len(ch.Buf) > 0 || ch.Closed) {
					v, ok := st.chanRecv(ch, false)
					if !ok {
						v = zero(ch.ElemT)
					}
					return mk(i, ok, k, v)
				}
				k++
			} else {
				if ch != nil && len(ch.Buf) < ch.Cap {
					ch.Buf = append(ch.Buf, st.get(fr, s.Send))
					return mk(i, false, -1, nil)
				}
			}
		}
		if !x.Blocking {
			return mk(-1, false, -1, nil)
		}
		st.block("select")
	}
}
