package interp

import (
	"fmt"
	"go/token"
	"go/types"
	"strings"
	"sync"

	"golang.org/x/tools/go/ssa"
	"verif/engine/sym"
)

// Program is the immutable, shared part: SSA + per-function layout.
type Program struct {
	Prog   *ssa.Program
	Pkgs   []*ssa.Package // majorana + harness packages (init is run for these)
	mu     sync.Mutex
	fninfo map[*ssa.Function]*fnInfo
}

type fnInfo struct {
	slot   map[ssa.Value]int
	nslots int
	ipdom  []int // immediate post-dominator block index, -1 if none
}

func NewProgram(p *ssa.Program, pkgs []*ssa.Package) *Program {
	return &Program{Prog: p, Pkgs: pkgs, fninfo: map[*ssa.Function]*fnInfo{}}
}

func (p *Program) info(fn *ssa.Function) *fnInfo {
	p.mu.Lock()
	defer p.mu.Unlock()
	if fi, ok := p.fninfo[fn]; ok {
		return fi
	}
	fi := &fnInfo{slot: map[ssa.Value]int{}}
	n := 0
	for _, pa := range fn.Params {
		fi.slot[pa] = n
		n++
	}
	for _, fv := range fn.FreeVars {
		fi.slot[fv] = n
		n++
	}
	for _, b := range fn.Blocks {
		for _, in := range b.Instrs {
			if v, ok := in.(ssa.Value); ok {
				fi.slot[v] = n
				n++
			}
		}
	}
	fi.nslots = n
	fi.ipdom = postDominators(fn)
	p.fninfo[fn] = fi
	return fi
}

// postDominators computes immediate post-dominators with a virtual exit.
func postDominators(fn *ssa.Function) []int {
	n := len(fn.Blocks)
	exit := n
	// succs in the reversed graph = preds; we need post-dom: dom on reverse CFG.
	succ := make([][]int, n+1)
	pred := make([][]int, n+1)
	for _, b := range fn.Blocks {
		if len(b.Succs) == 0 {
			succ[b.Index] = append(succ[b.Index], exit)
			pred[exit] = append(pred[exit], b.Index)
		}
		for _, s := range b.Succs {
			succ[b.Index] = append(succ[b.Index], s.Index)
			pred[s.Index] = append(pred[s.Index], b.Index)
		}
	}
	// reverse post-order on reversed graph from exit
	order := []int{}
	seen := make([]bool, n+1)
	var dfs func(int)
	dfs = func(u int) {
		seen[u] = true
		for _, v := range pred[u] {
			if !seen[v] {
				dfs(v)
			}
		}
		order = append(order, u)
	}
	dfs(exit)
	rpo := make([]int, n+1)
	for i := range rpo {
		rpo[i] = -1
	}
	for i, j := 0, len(order)-1; i < j; i, j = i+1, j-1 {
		order[i], order[j] = order[j], order[i]
	}
	for i, u := range order {
		rpo[u] = i
	}
	idom := make([]int, n+1)
	for i := range idom {
		idom[i] = -1
	}
	idom[exit] = exit
	intersect := func(a, b int) int {
		for a != b {
			for rpo[a] > rpo[b] {
				a = idom[a]
			}
			for rpo[b] > rpo[a] {
				b = idom[b]
			}
		}
		return a
	}
	changed := true
	for changed {
		changed = false
		for _, u := range order {
			if u == exit {
				continue
			}
			nw := -1
			for _, v := range succ[u] { // preds in reversed graph
				if idom[v] == -1 {
					continue
				}
				if nw == -1 {
					nw = v
				} else {
					nw = intersect(nw, v)
				}
			}
			if nw != -1 && idom[u] != nw {
				idom[u] = nw
				changed = true
			}
		}
	}
	res := make([]int, n)
	for i := 0; i < n; i++ {
		if idom[i] == exit || idom[i] == -1 {
			res[i] = -1
		} else {
			res[i] = idom[i]
		}
	}
	return res
}

// Verdict kinds of one path.
type Event struct {
	Kind  string // "assert", "panic", "budget", "unsupported", "deadlock", "unknown"
	Label string
	Model map[string]uint64
	Where string
}

// Dec is one recorded decision of a path: a branch direction, optionally on
// "term == Val" for a candidate value obtained from the solver (kept so that
// re-execution does not depend on which model the solver returns).
type Dec struct {
	Take   bool
	HasVal bool
	Val    uint64
}

type jentry struct {
	addr *Value
	old  Value
}

// State is one path execution.
type State struct {
	P       *Program
	TS      *sym.Store
	Solver  *sym.Solver
	globals map[*ssa.Global]*Value
	PC      []*sym.Term
	local   []*sym.Term // assumptions of enclosing merge sides

	prefix        []Dec
	decisions     []Dec
	Pending       [][]Dec // new prefixes to explore
	Params        map[string]string
	stack         []*ssa.Function
	Unwind        int
	MaxForks      int
	pcSet         map[int]bool
	model         map[string]uint64 // an assignment satisfying the current path condition (nil: unknown)
	panicking     *goPanic          // the Go panic being unwound (for the recover builtin)
	ForkSites     map[string]int
	MergeDebug    map[string]int
	ForcedNamed   map[string]int // values of vp.Choice calls by name (job splitting)
	ForcedChoices []int          // values of the first vp.Choice calls (job splitting)
	choiceIdx     int
	MaxConc       int // most values a symbolic index/size is concretised to (default 4)

	journalOn int
	deferred  []*sym.Term // (side condition -> fact) learnt inside merge sides
	journal   []jentry

	Steps      int64
	MaxSteps   int64
	Events     []Event
	Covers     map[string]int
	Funcs      map[string]int
	Vars       []*sym.Term
	varNames   map[string]bool
	Policy     int
	Forks      int
	Merges     int
	MergeFail  int
	Dead       bool // path killed by Assume
	Trace      bool
	NoMerge    bool
	concrete   map[string]uint64 // replay-in-engine: nondet values
	cur        *lazyG
	lazy       []*lazyG
	Asserts    int
	SymAsserts int
}

type frame struct {
	fn         *ssa.Function
	fi         *fnInfo
	env        []Value
	block      *ssa.BasicBlock
	prev       *ssa.BasicBlock
	defers     []func()
	result     Value
	done       bool
	stackDepth int
	// phis of pendingFor were already evaluated by a merge
	pendingFor *ssa.BasicBlock
	pendingPhi []Value
}

func NewState(p *Program, ts *sym.Store, solver *sym.Solver, prefix []Dec) *State {
	st := &State{P: p, TS: ts, Solver: solver, globals: map[*ssa.Global]*Value{}, prefix: prefix,
		MaxSteps: 50_000_000, Covers: map[string]int{}, Funcs: map[string]int{}, varNames: map[string]bool{}}
	solver.Reset()
	for _, pkg := range p.Pkgs {
		for _, m := range pkg.Members {
			if g, ok := m.(*ssa.Global); ok {
				v := zero(g.Type().(*types.Pointer).Elem())
				st.globals[g] = &v
			}
		}
	}
	return st
}

func (st *State) global(g *ssa.Global) *Value {
	if p, ok := st.globals[g]; ok {
		return p
	}
	v := zero(g.Type().(*types.Pointer).Elem())
	st.globals[g] = &v
	return &v
}

// RunInit runs the package initialisers of the program's packages.
func (st *State) RunInit() {
	for _, pkg := range st.P.Pkgs {
		if f := pkg.Func("init"); f != nil {
			st.call(f, nil, nil)
		}
	}
}

// CallFunc runs fn with args and returns its result; interpreted panics and
// aborts are converted into events.
func (st *State) CallFunc(fn *ssa.Function, args []Value) (res Value, aborted bool) {
	defer func() {
		if r := recover(); r != nil {
			switch e := r.(type) {
			case goPanic:
				st.event("panic", e.Msg, st.pcModel())
				aborted = true
			case unsupported:
				st.event("unsupported", e.msg, nil)
				aborted = true
			case pathEnd:
				aborted = true
			default:
				panic(r)
			}
		}
	}()
	return st.call(fn, args, nil), false
}

type pathEnd struct{ why string }

// pcModel returns values of the inputs that drive execution down this path.
func (st *State) pcModel() map[string]uint64 {
	if len(st.Vars) == 0 {
		return nil
	}
	r, model := st.Solver.Check(st.local, st.Vars)
	if r != sym.Sat {
		return nil
	}
	return model
}

func (st *State) event(kind, label string, model map[string]uint64) {
	where := ""
	for i := len(st.stack) - 1; i >= 0; i-- {
		f := st.stack[i]
		if f.Pkg != nil && strings.HasPrefix(f.Pkg.Pkg.Path(), "github.com/teivah/majorana") || f.Pkg == nil {
			where = f.String()
			break
		}
	}
	st.Events = append(st.Events, Event{Kind: kind, Label: label, Model: model, Where: where})
}

func (st *State) get(fr *frame, v ssa.Value) Value {
	switch x := v.(type) {
	case *ssa.Const:
		return st.constVal(x)
	case *ssa.Function:
		return &Closure{Fn: x}
	case *ssa.Global:
		return Ptr{P: st.global(x)}
	case *ssa.Builtin:
		return &Closure{Name: "builtin:" + x.Name()}
	}
	i, ok := fr.fi.slot[v]
	if !ok {
		panic(fmt.Sprintf("get: no slot for %T %v in %v", v, v, fr.fn))
	}
	return fr.env[i]
}

func (st *State) set(fr *frame, v ssa.Value, x Value) {
	fr.env[fr.fi.slot[v]] = x
}

func (st *State) constVal(c *ssa.Const) Value {
	t := c.Type()
	if c.Value == nil {
		return zero(t)
	}
	if bits, signed, ok := basicInfo(t); ok {
		if signed {
			return mkInt(bits, true, uint64(c.Int64()))
		}
		return mkInt(bits, false, c.Uint64())
	}
	switch u := t.Underlying().(type) {
	case *types.Basic:
		switch u.Kind() {
		case types.Bool, types.UntypedBool:
			return Bool{C: c.Value.String() == "true"}
		case types.String, types.UntypedString:
			return Str{S: constString(c)}
		case types.Float32, types.Float64, types.UntypedFloat:
			return Float{F: c.Float64()}
		}
	}
	panic(fmt.Sprintf("const %v of type %v", c, t))
}

func (st *State) call(fn *ssa.Function, args []Value, env []Value) Value {
	if fn.Synthetic == "package initializer" && fn.Pkg != nil && !strings.HasPrefix(fn.Pkg.Pkg.Path(), "github.com/teivah/majorana") {
		return nil // standard-library initialisers are not interpreted
	}
	if fn.Blocks == nil {
		return st.external(fn, args)
	}
	if v, ok := st.intrinsic(fn, args); ok {
		return v
	}
	if fn.Pkg != nil {
		st.Funcs[fn.String()]++
	} else {
		st.Funcs[fn.String()]++
	}
	fi := st.P.info(fn)
	fr := &frame{fn: fn, fi: fi, env: make([]Value, fi.nslots)}
	for i, a := range args {
		fr.env[i] = a
	}
	for i, e := range env {
		fr.env[len(fn.Params)+i] = e
	}
	fr.block = fn.Blocks[0]
	st.stack = append(st.stack, fn)
	depth := len(st.stack)
	fr.stackDepth = depth
	st.runFrame(fr, nil)
	st.stack = st.stack[:depth-1]
	return fr.result
}

// runFrame executes fr until it returns, or until it is about to enter stop
// (when stop != nil). It reports whether stop was reached.
func (st *State) runFrame(fr *frame, stop *ssa.BasicBlock) bool {
	defer func() {
		if stop == nil {
			if r := recover(); r != nil {
				// run deferred calls (one of them may call recover()), then keep unwinding
				if gp, isPanic := r.(goPanic); isPanic && len(fr.defers) > 0 && st.journalOn == 0 {
					saved := st.panicking
					st.panicking = &gp
					st.runDefers(fr)
					if st.panicking == nil {
						// recovered: the function returns through its Recover block (named results)
						st.panicking = saved
						if fr.stackDepth <= len(st.stack) {
							st.stack = st.stack[:fr.stackDepth]
						}
						if fr.fn.Recover != nil {
							fr.block, fr.prev, fr.done = fr.fn.Recover, nil, false
							fr.pendingFor, fr.pendingPhi = nil, nil
							st.runFrame(fr, nil)
						} else {
							fr.result, fr.done = zeroResults(fr.fn), true
						}
						return
					}
					st.panicking = saved
				}
				panic(r)
			}
		}
	}()
	for {
		if fr.done {
			return false
		}
		if stop != nil && fr.block == stop {
			return true
		}
		st.execBlock(fr)
	}
}

func zeroResults(fn *ssa.Function) Value {
	res := fn.Signature.Results()
	switch res.Len() {
	case 0:
		return nil
	case 1:
		return zero(res.At(0).Type())
	}
	t := make(Tuple, res.Len())
	for i := range t {
		t[i] = zero(res.At(i).Type())
	}
	return t
}

func (st *State) runDefers(fr *frame) {
	for len(fr.defers) > 0 {
		d := fr.defers[len(fr.defers)-1]
		fr.defers = fr.defers[:len(fr.defers)-1]
		d()
	}
}

func (st *State) execBlock(fr *frame) {
	b := fr.block
	// phis first (parallel assignment)
	nphi := 0
	if fr.pendingFor == b {
		for i, v := range fr.pendingPhi {
			st.set(fr, b.Instrs[i].(*ssa.Phi), v)
		}
		nphi = len(fr.pendingPhi)
		fr.pendingFor, fr.pendingPhi = nil, nil
	} else if fr.prev != nil {
		idx := -1
		for i, p := range b.Preds {
			if p == fr.prev {
				idx = i
				break
			}
		}
		var vals []Value
		for _, in := range b.Instrs {
			phi, ok := in.(*ssa.Phi)
			if !ok {
				break
			}
			vals = append(vals, st.get(fr, phi.Edges[idx]))
			nphi++
		}
		for i := 0; i < nphi; i++ {
			st.set(fr, b.Instrs[i].(*ssa.Phi), vals[i])
		}
	}
	for _, in := range b.Instrs[nphi:] {
		st.Steps++
		if st.Steps > st.MaxSteps {
			st.event("budget", fmt.Sprintf("step budget exceeded in %v", fr.fn), st.pcModel())
			panic(pathEnd{"budget"})
		}
		if st.Trace {
			fmt.Printf("  %v: %v\n", fr.fn.Name(), in)
		}
		switch x := in.(type) {
		case *ssa.Jump:
			fr.prev, fr.block = b, b.Succs[0]
			return
		case *ssa.If:
			c := st.get(fr, x.Cond).(Bool)
			if c.T == nil {
				if c.C {
					fr.prev, fr.block = b, b.Succs[0]
				} else {
					fr.prev, fr.block = b, b.Succs[1]
				}
				return
			}
			st.symbolicIf(fr, b, c.T)
			return
		case *ssa.Return:
			switch len(x.Results) {
			case 0:
			case 1:
				fr.result = st.get(fr, x.Results[0])
			default:
				t := make(Tuple, len(x.Results))
				for i, r := range x.Results {
					t[i] = st.get(fr, r)
				}
				fr.result = t
			}
			fr.done = true
			return
		case *ssa.Panic:
			v := st.get(fr, x.X)
			panic(goPanic{Val: v, Msg: show(v)})
		case *ssa.RunDefers:
			st.runDefers(fr)
		default:
			st.exec(fr, in)
		}
	}
}

// symbolicIf handles a branch on a symbolic condition: merge if possible,
// otherwise fork.
func (st *State) symbolicIf(fr *frame, b *ssa.BasicBlock, c *sym.Term) {
	if !st.NoMerge {
		if st.tryMerge(fr, b, c) {
			return
		}
	}
	take := st.decide(c)
	if take {
		fr.prev, fr.block = b, b.Succs[0]
	} else {
		fr.prev, fr.block = b, b.Succs[1]
	}
}

// decide forks on c: returns the direction taken on this path.
func (st *State) decide(c *sym.Term) bool {
	return st.decideRec(c, false, 0)
}

func (st *State) decideRec(c *sym.Term, hasVal bool, val uint64) bool {
	if st.journalOn > 0 {
		panic(mergeAbort{"fork inside merge side"})
	}
	pos := len(st.decisions)
	var take bool
	var next map[string]uint64
	haveNext := false
	if pos < len(st.prefix) {
		take = st.prefix[pos].Take
	} else if st.pcSet[c.ID] {
		take = true
	} else if st.pcSet[st.TS.Not(c).ID] {
		take = false
	} else {
		// One side is usually known to be feasible from the model kept for the
		// current path condition; only the other side needs a query.
		var tOK, fOK bool
		var mT, mF map[string]uint64
		if st.model != nil && len(st.local) == 0 {
			if sym.Eval(c, st.model, map[int]uint64{}) == 1 {
				tOK, mT = true, st.model
			} else {
				fOK, mF = true, st.model
			}
		}
		if !tOK {
			tOK, mT = st.feasibleM(c)
		}
		if !fOK {
			fOK, mF = st.feasibleM(st.TS.Not(c))
		}
		switch {
		case tOK && fOK:
			take = true
			alt := append(append([]Dec(nil), st.decisions...), Dec{Take: false, HasVal: hasVal, Val: val})
			st.Pending = append(st.Pending, alt)
			st.Forks++
			if st.ForkSites != nil && len(st.stack) > 0 {
				st.ForkSites[st.stack[len(st.stack)-1].String()]++
			}
		case tOK:
			take = true
		case fOK:
			take = false
		default:
			st.Dead = true
			panic(pathEnd{"infeasible"})
		}
		if take {
			next = mT
		} else {
			next = mF
		}
		haveNext = true
	}
	st.decisions = append(st.decisions, Dec{Take: take, HasVal: hasVal, Val: val})
	if take {
		st.assume(c)
	} else {
		st.assume(st.TS.Not(c))
	}
	if haveNext {
		st.model = next
	}
	return take
}

// feasibleM is feasible that also returns a model of PC and c when there is one.
func (st *State) feasibleM(c *sym.Term) (bool, map[string]uint64) {
	if c.IsTrue() {
		return true, st.model
	}
	if c.IsFalse() {
		return false, nil
	}
	extra := append(append([]*sym.Term(nil), st.local...), c)
	var vars []*sym.Term
	if len(st.local) == 0 {
		vars = st.Vars
	}
	r, m := st.Solver.Check(extra, vars)
	if r == sym.Unsat {
		return false, nil
	}
	if r != sym.Sat || len(st.local) > 0 {
		return true, nil
	}
	if m == nil {
		m = map[string]uint64{}
	}
	return true, m
}

// concretize turns a symbolic integer into a concrete one by enumerating its
// feasible values with the solver and forking on each (limit 64 values).
func (st *State) concretize(i Int, what string) Int {
	if i.T == nil {
		return i
	}
	limit := st.MaxConc
	if limit == 0 {
		limit = 4
	}
	for n := 0; n < limit; n++ {
		var cand uint64
		pos := len(st.decisions)
		if pos < len(st.prefix) && st.prefix[pos].HasVal {
			cand = st.prefix[pos].Val
		} else {
			if st.journalOn > 0 {
				panic(mergeAbort{"concretize inside merge side"})
			}
			r, model := st.Solver.Check(st.local, []*sym.Term{i.T})
			if r == sym.Unsat {
				st.Dead = true
				panic(pathEnd{"infeasible"})
			}
			if r != sym.Sat {
				st.event("unknown", "concretize "+what, nil)
				panic(pathEnd{"unknown"})
			}
			cand = model[sym.NameOf(i.T)]
		}
		if st.decideRec(st.TS.Eq(i.T, st.TS.BV(int(i.Bits), cand)), true, cand) {
			return mkInt(i.Bits, i.Signed, cand)
		}
	}
	panic(errUnsupported(fmt.Sprintf("more than %d feasible values for symbolic %s", limit, what)))
}

func (st *State) assume(c *sym.Term) {
	if c.IsTrue() {
		return
	}
	if st.pcSet == nil {
		st.pcSet = map[int]bool{}
	}
	if st.pcSet[c.ID] {
		return
	}
	st.pcSet[c.ID] = true
	st.PC = append(st.PC, c)
	st.Solver.Assert(c)
	if st.model != nil && sym.Eval(c, st.model, map[int]uint64{}) != 1 {
		st.model = nil
	}
}

func (st *State) feasible(c *sym.Term) bool {
	if c.IsTrue() {
		return true
	}
	if c.IsFalse() {
		return false
	}
	extra := append(append([]*sym.Term(nil), st.local...), c)
	r, _ := st.Solver.Check(extra, nil)
	return r != sym.Unsat
}

// checkBad asks whether bad can hold here; if so records an event of the
// given kind with a model and continues under ¬bad.
func (st *State) checkBad(bad *sym.Term, kind, label string) {
	if bad.IsFalse() {
		return
	}
	extra := append(append([]*sym.Term(nil), st.local...), bad)
	r, model := st.Solver.Check(extra, st.Vars)
	if r == sym.Sat {
		st.event(kind, label, model)
	} else if r == sym.Unknown {
		st.event("unknown", label, nil)
	}
	if bad.IsTrue() {
		panic(pathEnd{kind})
	}
	if r == sym.Sat {
		// continue only if the good case is possible at all
		if st.journalOn > 0 {
			panic(mergeAbort{"violation inside merge side"})
		}
		if !st.feasible(st.TS.Not(bad)) {
			panic(pathEnd{kind})
		}
	}
	if st.journalOn > 0 {
		// inside a merge side: local knowledge now, implication after the merge
		imp := st.TS.Not(bad)
		for _, l := range st.local {
			imp = st.TS.Or(st.TS.Not(l), imp)
		}
		st.deferred = append(st.deferred, imp)
		st.local = append(st.local, st.TS.Not(bad))
		return
	}
	st.assume(st.TS.Not(bad))
}

type mergeAbort struct{ why string }

// tryMerge executes both sides of the branch up to the immediate
// post-dominator, journalling writes, and joins them with ite.
func (st *State) tryMerge(fr *frame, b *ssa.BasicBlock, c *sym.Term) (ok bool) {
	j := fr.fi.ipdom[b.Index]
	if j < 0 {
		return false
	}
	join := fr.fn.Blocks[j]
	savedEnv := append([]Value(nil), fr.env...)
	savedSteps := st.Steps
	savedLocal := len(st.local)
	savedEvents := len(st.Events)
	savedDefers := len(fr.defers)
	savedDeferred := len(st.deferred)
	type side struct {
		writes map[*Value]Value
		order  []*Value
		env    []Value
		prev   *ssa.BasicBlock
		pend   []Value
	}
	runSide := func(succ *ssa.BasicBlock, cond *sym.Term) (s side, good bool) {
		mark := len(st.journal)
		st.journalOn++
		st.local = append(st.local, cond)
		defer func() {
			st.journalOn--
			st.local = st.local[:savedLocal]
			// collect and undo
			s.writes = map[*Value]Value{}
			for i := len(st.journal) - 1; i >= mark; i-- {
				e := st.journal[i]
				if _, seen := s.writes[e.addr]; !seen {
					s.writes[e.addr] = *e.addr
					s.order = append(s.order, e.addr)
				}
				*e.addr = e.old
			}
			st.journal = st.journal[:mark]
			if r := recover(); r != nil {
				good = false
				if st.MergeDebug != nil {
					st.MergeDebug[fmt.Sprintf("%v in %s", r, fr.fn.Name())]++
				}
				switch r.(type) {
				case mergeAbort, goPanic, pathEnd, unsupported:
					// fall back to forking
				default:
					panic(r)
				}
			}
		}()
		fr.prev, fr.block, fr.done = b, succ, false
		fr.pendingFor, fr.pendingPhi = nil, nil
		limit := st.Steps + 4000
		for fr.block != join {
			if fr.done {
				panic(mergeAbort{"return inside side"})
			}
			if st.Steps > limit {
				panic(mergeAbort{"side too long"})
			}
			if len(fr.defers) != savedDefers {
				panic(mergeAbort{"defer inside side"})
			}
			st.execBlock(fr)
		}
		s.env = append([]Value(nil), fr.env...)
		s.prev = fr.prev
		if fr.pendingFor == join {
			s.pend = fr.pendingPhi
		}
		fr.pendingFor, fr.pendingPhi = nil, nil
		return s, true
	}
	restore := func() {
		copy(fr.env, savedEnv)
		fr.done = false
		fr.defers = fr.defers[:savedDefers]
		st.Events = st.Events[:savedEvents]
		st.deferred = st.deferred[:savedDeferred]
		fr.pendingFor, fr.pendingPhi = nil, nil
	}
	sT, okT := runSide(b.Succs[0], c)
	if !okT {
		restore()
		st.Steps = savedSteps
		st.MergeFail++
		return false
	}
	copy(fr.env, savedEnv)
	sF, okF := runSide(b.Succs[1], st.TS.Not(c))
	if !okF {
		restore()
		st.Steps = savedSteps
		st.MergeFail++
		return false
	}
	// join memory
	type upd struct {
		addr *Value
		v    Value
	}
	var upds []upd
	seen := map[*Value]bool{}
	for _, lst := range [][]*Value{sT.order, sF.order} {
		for _, a := range lst {
			if seen[a] {
				continue
			}
			seen[a] = true
			vt, inT := sT.writes[a]
			vf, inF := sF.writes[a]
			if !inT {
				vt = *a
			}
			if !inF {
				vf = *a
			}
			m, good := st.iteVal(c, vt, vf)
			if !good {
				restore()
				st.Steps = savedSteps
				st.MergeFail++
				return false
			}
			upds = append(upds, upd{a, m})
		}
	}
	// registers: SSA values defined before the branch are the same on both
	// sides; values defined inside a side do not dominate the join and can only
	// be read there through a phi (evaluated per side below). Keep the
	// pre-branch environment and, harmlessly, whatever a side defined.
	merged := make([]Value, len(fr.env))
	copy(merged, savedEnv)
	for i := range merged {
		if merged[i] == nil {
			if sT.env[i] != nil {
				merged[i] = sT.env[i]
			} else {
				merged[i] = sF.env[i]
			}
		}
	}
	// phis at join read different predecessors on the two sides: evaluate them
	// per side and merge.
	var phiVals []Value
	nphi := 0
	for _, in := range join.Instrs {
		phi, isPhi := in.(*ssa.Phi)
		if !isPhi {
			break
		}
		nphi++
		var vt, vf Value
		if sT.pend != nil {
			vt = sT.pend[nphi-1]
		} else {
			vt = st.get(&frame{fn: fr.fn, fi: fr.fi, env: sT.env}, phi.Edges[predIndex(join, sT.prev)])
		}
		if sF.pend != nil {
			vf = sF.pend[nphi-1]
		} else {
			vf = st.get(&frame{fn: fr.fn, fi: fr.fi, env: sF.env}, phi.Edges[predIndex(join, sF.prev)])
		}
		m, good := st.iteVal(c, vt, vf)
		if !good {
			restore()
			st.Steps = savedSteps
			st.MergeFail++
			return false
		}
		phiVals = append(phiVals, m)
	}
	for _, u := range upds {
		st.storeSlot(u.addr, u.v)
	}
	copy(fr.env, merged)
	fr.prev, fr.block, fr.done = b, join, false
	fr.pendingFor, fr.pendingPhi = join, phiVals
	if phiVals == nil {
		fr.pendingPhi = []Value{}
	}
	st.Merges++
	if st.journalOn == 0 {
		for _, d := range st.deferred {
			st.assume(d)
		}
		st.deferred = nil
	}
	return true
}

func predIndex(b, p *ssa.BasicBlock) int {
	for i, x := range b.Preds {
		if x == p {
			return i
		}
	}
	panic("predIndex")
}

// iteVal merges two values under condition c.
func (st *State) iteVal(c *sym.Term, a, b Value) (Value, bool) {
	switch x := a.(type) {
	case Int:
		y, ok := b.(Int)
		if !ok || x.Bits != y.Bits {
			return nil, false
		}
		if x.T == nil && y.T == nil && x.C == y.C {
			return x, true
		}
		t := st.TS.Ite(c, st.term(x), st.term(y))
		return st.fromTerm(t, x.Bits, x.Signed), true
	case Bool:
		y, ok := b.(Bool)
		if !ok {
			return nil, false
		}
		if x.T == nil && y.T == nil && x.C == y.C {
			return x, true
		}
		t := st.TS.Ite(c, st.bterm(x), st.bterm(y))
		return st.boolFrom(t), true
	case Struct:
		y, ok := b.(Struct)
		if !ok || len(x) != len(y) {
			return nil, false
		}
		r := make(Struct, len(x))
		for i := range x {
			m, good := st.iteVal(c, x[i], y[i])
			if !good {
				return nil, false
			}
			r[i] = m
		}
		return r, true
	case Array:
		y, ok := b.(Array)
		if !ok || len(x) != len(y) {
			return nil, false
		}
		r := make(Array, len(x))
		for i := range x {
			m, good := st.iteVal(c, x[i], y[i])
			if !good {
				return nil, false
			}
			r[i] = m
		}
		return r, true
	case Tuple:
		y, ok := b.(Tuple)
		if !ok || len(x) != len(y) {
			return nil, false
		}
		r := make(Tuple, len(x))
		for i := range x {
			m, good := st.iteVal(c, x[i], y[i])
			if !good {
				return nil, false
			}
			r[i] = m
		}
		return r, true
	case Ptr:
		y, ok := b.(Ptr)
		return a, ok && x.P == y.P
	case Str:
		y, ok := b.(Str)
		if !ok {
			return nil, false
		}
		if x.Sym == nil && y.Sym == nil {
			return a, x.S == y.S
		}
		if slen(x) != slen(y) {
			return nil, false
		}
		xb, yb := sbytes(x), sbytes(y)
		out := make([]Int, len(xb))
		for i := range xb {
			m, good := st.iteVal(c, xb[i], yb[i])
			if !good {
				return nil, false
			}
			out[i] = m.(Int)
		}
		return mkStr(out), true
	case Slice:
		y, ok := b.(Slice)
		if !ok || x.Nil != y.Nil || len(x.Data) != len(y.Data) || cap(x.Data) != cap(y.Data) {
			return nil, false
		}
		if cap(x.Data) > 0 && &x.Data[:1][0] != &y.Data[:1][0] {
			return nil, false
		}
		return a, true
	case *Map:
		y, ok := b.(*Map)
		return a, ok && x == y
	case *Chan:
		y, ok := b.(*Chan)
		return a, ok && x == y
	case *Closure:
		y, ok := b.(*Closure)
		return a, ok && (x == y || (x != nil && y != nil && x.Fn == y.Fn && len(x.Env) == 0 && len(y.Env) == 0 && x.Name == y.Name))
	case Iface:
		y, ok := b.(Iface)
		if !ok {
			return nil, false
		}
		if x.T == nil && y.T == nil {
			return a, true
		}
		if x.T == nil || y.T == nil || !types.Identical(x.T, y.T) {
			return nil, false
		}
		m, good := st.iteVal(c, x.V, y.V)
		return Iface{T: x.T, V: m}, good
	case nil:
		return nil, b == nil
	case *mapIter, *strIter, *symStrIter:
		return a, a == b
	case Float:
		y, ok := b.(Float)
		return a, ok && x.F == y.F
	}
	return nil, false
}

func (st *State) storeSlot(addr *Value, v Value) {
	if st.journalOn > 0 {
		st.journal = append(st.journal, jentry{addr, *addr})
	}
	*addr = v
}

// store writes v of type t to addr elementwise (keeps field pointers valid).
func (st *State) store(addr *Value, v Value) {
	switch x := v.(type) {
	case Struct:
		dst, ok := (*addr).(Struct)
		if !ok || len(dst) != len(x) {
			st.storeSlot(addr, copyVal(v))
			return
		}
		for i := range x {
			st.store(&dst[i], x[i])
		}
	case Array:
		dst, ok := (*addr).(Array)
		if !ok || len(dst) != len(x) {
			st.storeSlot(addr, copyVal(v))
			return
		}
		for i := range x {
			st.store(&dst[i], x[i])
		}
	default:
		st.storeSlot(addr, v)
	}
}

func (st *State) load(addr *Value) Value { return copyVal(*addr) }

// term returns the bit-vector term of an Int.
func (st *State) term(i Int) *sym.Term {
	if i.T != nil {
		return i.T
	}
	return st.TS.BV(int(i.Bits), i.C)
}

func (st *State) bterm(b Bool) *sym.Term {
	if b.T != nil {
		return b.T
	}
	return st.TS.Bool(b.C)
}

func (st *State) fromTerm(t *sym.Term, bits uint8, signed bool) Int {
	if t.IsConst() {
		return mkInt(bits, signed, t.Val)
	}
	return Int{Bits: bits, Signed: signed, T: t}
}

func (st *State) boolFrom(t *sym.Term) Bool {
	if t.IsConst() {
		return Bool{C: t.Val == 1}
	}
	return Bool{T: t}
}

func (st *State) NewVar(name string, bits uint8, signed bool) Int {
	name = sanitize(name)
	if v, ok := st.concrete[name]; ok {
		return mkInt(bits, signed, v)
	}
	t := st.TS.Var(name, int(bits))
	if !st.varNames[name] {
		st.varNames[name] = true
		st.Vars = append(st.Vars, t)
	}
	return Int{Bits: bits, Signed: signed, T: t}
}

func sanitize(s string) string {
	var sb strings.Builder
	sb.WriteString("v_")
	for _, c := range s {
		if c >= 'a' && c <= 'z' || c >= 'A' && c <= 'Z' || c >= '0' && c <= '9' || c == '_' {
			sb.WriteRune(c)
		} else {
			sb.WriteRune('_')
		}
	}
	return sb.String()
}

const tokenLSS = token.LSS

// SetConcrete fixes nondet inputs (engine-side replay of a model).
func (st *State) SetConcrete(m map[string]uint64) { st.concrete = m }
