#!/bin/sh
# run.sh <prop> <tier>: rebuilds nothing itself (vcheck re-loads /repo's working
# tree and regenerates every encoding on each run); builds vcheck if missing.
cd /verif || exit 2
export GOFLAGS=-mod=mod GOPROXY=off GOSUMDB=off GOTOOLCHAIN=local
if [ ! -x bin/vcheck ]; then
  (cd engine && go build -o /verif/bin/vcheck ./cmd/vcheck) || exit 2
fi
tier="${2:-${VERIF_TIER:-quick}}"
# Thorough tier of the two cheap unit-level checks: every obligation is asked a
# second time of an independent solver build (z3 5.1.0, "z3-new") before the
# registered z3 4.8.12 run; a disagreement (violation or machinery error in
# either run) fails the check. The second run's outcome is recorded in evidence.
case "$tier:$1" in
thorough:C16|thorough:C02)
  if command -v z3-new >/dev/null 2>&1; then
    out=$(bin/vcheck run -prop "$1" -tier "$tier" -solver z3-new 2>&1); rc=$?
    echo "$out" | sed 's/^/[z3-new] /'
    if [ $rc -ne 0 ]; then echo "$out" | grep '^VIOLATION'; exit $rc; fi
    VERIF_CROSS="z3-new (5.1.0) re-asked all obligations first: $(echo "$out" | grep "^$1 $tier:" | tail -1)"
    export VERIF_CROSS
  fi ;;
esac
exec bin/vcheck run -prop "$1" -tier "$tier"
