#!/bin/sh
# run.sh <prop> <tier>: rebuilds nothing itself (vcheck re-loads /repo's working
# tree and regenerates every encoding on each run); builds vcheck if missing.
cd /verif || exit 2
export GOFLAGS=-mod=mod GOPROXY=off GOSUMDB=off GOTOOLCHAIN=local
if [ ! -x bin/vcheck ]; then
  (cd engine && go build -o /verif/bin/vcheck ./cmd/vcheck) || exit 2
fi
exec bin/vcheck run -prop "$1" -tier "${2:-${VERIF_TIER:-quick}}"
